#!/usr/bin/env python3
"""Regenerates MANIFEST.json from the check modules present under checks/ (keeps it valid at all times)."""
import json, os, re, sys
HERE = os.path.dirname(os.path.abspath(__file__))
props = [json.loads(l) for l in open(os.path.join(HERE, 'properties.jsonl'))]
sys.path.insert(0, HERE)
META = json.load(open(os.path.join(HERE, 'checks', 'meta.json')))
checks, na = [], []
for p in props:
    pid = p['id']
    m = META.get(pid)
    if m is None or not os.path.exists(os.path.join(HERE, 'checks', pid.lower() + '.py')):
        na.append({'property_id': pid, 'reason': 'check not built yet in this revision (bounded exhaustive exploration applies; see DESIGN.md section 3)'})
        continue
    checks.append({
        'property_id': pid,
        'quick_cmd': f'./check {pid} --tier quick',
        'thorough_cmd': f'./check {pid} --tier thorough',
        'evidence_file': f'/verif/evidence/{pid}.json',
        'replay_cmd_template': f'./check {pid} --replay {{path}}',
        'engine': m['engine'],
        'level_claimed': {'category': m['level'], 'text': m['text'], 'design_ref': f'DESIGN.md section 3, {pid}'},
        'level_note': m['note'],
        'technique': m['technique'],
    })
man = {
    'version': 1,
    'setup_cmd': 'mkdir -p evidence replays && /venv/bin/python -m mc.canary',
    'hooks': {
        'guard': 'FURAX_VERIF',
        'enable': 'no source hooks are needed: rule firings are observed by wrapping rule instances from the harness process, scheduling points by sys.settrace, termination by a timer; checks import furax from $VERIF_REPO/src (default /repo/src) in fresh worker processes',
        'baseline_off_cmd': 'cd /repo && /venv/bin/python -m pytest -ra -q -p no:cacheprovider --timeout=900 --continue-on-collection-errors',
        'source_commits': [],
        'add_only': True,
    },
    'engines': [
        {'name': 'BEX', 'path': 'mc/pool.py', 'serves_properties': [c['property_id'] for c in checks if 'BEX' in c['engine']], 'kind_free_text': 'bounded exhaustive enumeration of case descriptors over a sharded spawn pool; asserts executed == declared'},
        {'name': 'XSTATE', 'path': 'mc/xstate.py', 'serves_properties': [c['property_id'] for c in checks if 'XSTATE' in c['engine']], 'kind_free_text': 'explicit-state search over the real transition functions (rule.check/apply, Config enter/exit) with canonical state keys, edge-local invariants, cycle detection'},
        {'name': 'SCHED', 'path': 'mc/sched.py', 'serves_properties': [c['property_id'] for c in checks if 'SCHED' in c['engine']], 'kind_free_text': 'stateless schedule exploration over real threads with a baton and sys.settrace preemption points, iterative preemption bounding'},
    ],
    'checks': checks,
    'not_applicable': na,
    'notes': 'All checks are bounded exhaustive explorations (model-checking family); see DESIGN.md. KNOWN_FINDINGS.txt lists recorded genuine defects.',
}
json.dump(man, open(os.path.join(HERE, 'MANIFEST.json'), 'w'), indent=1)
print('checks', [c['property_id'] for c in checks], 'not_applicable', len(na))
