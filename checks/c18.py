"""C18 - results do not depend on JIT compilation or pytree round trips.

For every specimen / composite of the universe, lazy inverses included, in both 64-bit modes:
  (i)   jax.tree.unflatten(*reversed(jax.tree.flatten(op))) has the same structures and the same basis probe;
  (ii)  jax.jit(lambda x: op.mv(x))(x) == op.mv(x) eagerly: values, shapes, dtypes, for 3 distinct-prime vectors;
  (iii) equinox.filter_jit(lambda op, x: op.mv(x))(op, x) likewise, for operators without boolean-mask selection.
Landscapes (Healpix, Frequency, a concrete StokesLandscape subclass): flatten/unflatten round trip preserves class,
shape, dtype, stokes, nside/frequencies and the results of their methods; usable as static arguments of jitted methods.
"""
from __future__ import annotations

PROPERTY = 'C18'
LEVEL = 'exploration'
TARGET = 'checks.c18:run'


def plan(tier, seed):
    from mc import universe as U

    land = [{'land': k, 'stokes': s, 'dt': d} for k in ('healpix', 'frequency', 'custom') for s in ('I', 'QU', 'IQU', 'IQUV') for d in ('f32', 'f64')]
    import itertools

    seqs = [{'shared_jit': list(p_)} for p_ in itertools.permutations(['2', '2.0', '2+0j', '-1', 'neg', '-1.0'], 3)]
    seqs += [{'shared_jit_inv': list(p_)} for p_ in itertools.permutations(['plain', 'precond', 'onestep'], 3)] + [{'shared_jit_inv': ['plain', 'precond']}, {'shared_jit_inv': ['precond', 'plain']}]
    # a lazy inverse created under one configuration, first applied (eagerly and through jitted functions) under a second
    # ambient configuration, compared under a third: jit and eager must agree, whatever is active around them
    amb = [None, 'plain', 'onestep', 'precond']
    seqs += [{'jit_ambient': [c, f, k]} for c in amb for f in amb for k in amb]
    # an operator size never used before in the process, applied FIRST under a trace (jit / filter_jit / the generic as_matrix),
    # then eagerly, then in another jitted function (every case has sizes of its own)
    seqs += [{'first_use_traced': [21 + 3 * i + j, 4 + i % 3], 'method': m, 'first': f} for i, (m, f) in enumerate(
        (m, f) for m in ('dense', 'direct', 'fft', 'overlap_save') for f in ('jit', 'filter_jit', 'generic_as_matrix')) for j in (0,)]
    return [
        {'name': 'shared_jit', 'target': TARGET, 'x64': False, 'cases': seqs, 'chunk': 10},
        {'name': 'x32', 'target': TARGET, 'x64': False, 'cases': U.cases(tier, ('f32',), modulus=8)},
        {'name': 'x64', 'target': TARGET, 'x64': True, 'chunk': 3,
         'cases': U.cases(tier, ('f64',), modulus=8) if tier == 'thorough' else [c for c in U.cases(tier, ('f64',)) if 'b' not in c]},
        {'name': 'land_x32', 'target': TARGET, 'x64': False, 'cases': [c for c in land if c['dt'] == 'f32'], 'chunk': 2},
        {'name': 'land_x64', 'target': TARGET, 'x64': True, 'cases': land, 'chunk': 2},
    ]


PRIMES = [2, 3, 5, 7, 11, 13, 17, 19, 23, 29, 31, 37, 41, 43, 47, 53, 59, 61, 67, 71, 73, 79, 83, 89, 97]


def vectors(struct, n):
    import numpy as np

    from mc import probe as P

    out = []
    for k in range(3):
        v = np.array([PRIMES[(i * (k + 1) + k) % len(PRIMES)] * (-1 if (i + k) % 3 == 0 else 1) for i in range(n)], dtype=float)
        out.append(P.unflat(v, struct))
    return out


def oracle(desc, op, exact):
    import equinox
    import jax
    import numpy as np

    from mc import probe as P
    from mc import universe as U

    probs = []
    solver = 'lazy_inv' in desc['a'] or 'lazy_inv' in str(desc.get('b'))
    tol = 1e-3 if solver else (0.0 if exact else P.tol_for(*P.op_dtypes(op)))
    tol = max(tol, 1e-6)
    # (i) flatten / unflatten
    leaves, treedef = P.lib('tree_flatten', jax.tree.flatten, op)
    op2 = P.lib('tree_unflatten', jax.tree.unflatten, treedef, leaves)
    if type(op2) is not type(op):
        probs.append(('roundtrip-class', f'{type(op).__name__} became {type(op2).__name__}'))
    elif not P.same_struct(op2.in_structure(), op.in_structure()) or not P.same_struct(op2.out_structure(), op.out_structure()):
        probs.append(('roundtrip-structure', f'{op2.in_structure()} -> {op2.out_structure()}'))
    else:
        m1, m2 = P.probe(op, cache=False).M, P.probe(op2, cache=False).M
        if not P.close(m2, m1, tol if solver else 1e-12):
            probs.append(('roundtrip-action', f'max diff {P.maxdiff(m2, m1):.4g}'))
    # (ii) jit over a closure, (iii) filter_jit with the operator as an argument
    n = P.ssize(op.in_structure())
    xs = vectors(op.in_structure(), n)
    jitted = jax.jit(lambda x: op.mv(x))
    fjit = equinox.filter_jit(lambda o, x: o.mv(x))
    masked = desc['a'] in U.MASKED or desc.get('b') in U.MASKED
    for k, x in enumerate(xs):
        y = P.lib('mv', op.mv, x)
        sig = P.actual_struct_sig(y)
        for label, fn in (('jit-closure', lambda: jitted(x)), ('filter_jit-argument', None if masked else (lambda: fjit(op, x)))):
            if fn is None:
                continue
            yj = P.lib(label, fn)
            if P.actual_struct_sig(yj) != sig:
                probs.append((f'{label}-structure', f'eager {sig} but {label} {P.actual_struct_sig(yj)}'))
            elif not P.close(P.flat(yj), P.flat(y), tol):
                probs.append((f'{label}-values', f'max diff {P.maxdiff(P.flat(yj), P.flat(y)):.4g} on vector {k}'))
        if k == 0 and probs:
            break
    # reduce() evaluated inside a filtering jit (operator as argument) must give the map of the eagerly reduced operator
    if not masked and not solver:
        yr = P.lib('reduce-then-mv', lambda: op.reduce().mv(xs[0]))
        yrj = P.lib('reduce-under-filter_jit', lambda: equinox.filter_jit(lambda o, x: o.reduce().mv(x))(op, xs[0]))
        if P.actual_struct_sig(yrj) != P.actual_struct_sig(yr) or not P.close(P.flat(yrj), P.flat(yr), tol):
            probs.append(('reduce-under-jit', f'max diff {P.maxdiff(P.flat(yrj), P.flat(yr)):.4g}; structures {P.actual_struct_sig(yrj)} vs {P.actual_struct_sig(yr)}'))
        # ... and inside a jit that closes over the operator (object identities between operands survive there)
        yrc = P.lib('reduce-under-jit-closure', lambda: jax.jit(lambda x: op.reduce().mv(x))(xs[0]))
        if P.actual_struct_sig(yrc) != P.actual_struct_sig(yr) or not P.close(P.flat(yrc), P.flat(yr), tol):
            probs.append(('reduce-under-jit', f'closure: max diff {P.maxdiff(P.flat(yrc), P.flat(yr)):.4g}; structures {P.actual_struct_sig(yrc)} vs {P.actual_struct_sig(yr)}'))
    # order of first use: a FRESH copy of a specimen applied under jit first, eagerly afterwards
    if desc['form'] == 'single':
        fresh = P.lib('build', U._build, desc['a'], desc['dt'])
        x0 = xs[0]
        yj = P.lib('jit-first', lambda: jax.jit(lambda x: fresh.mv(x))(x0))
        ye = P.lib('eager-after-jit', fresh.mv, x0)
        if P.actual_struct_sig(yj) != P.actual_struct_sig(ye) or not P.close(P.flat(yj), P.flat(ye), tol):
            probs.append(('jit-first-then-eager', f'max diff {P.maxdiff(P.flat(yj), P.flat(ye)):.4g}'))
        if desc['a'] not in U.NO_TRANSPOSE:
            yt = P.lib('transpose-after-jit', lambda: fresh.T.mv(ye))
            yt0 = P.lib('transpose', lambda: op.T.mv(ye))
            if not P.close(P.flat(yt), P.flat(yt0), tol):
                probs.append(('jit-first-then-transpose', f'max diff {P.maxdiff(P.flat(yt), P.flat(yt0)):.4g}'))
    return probs, True


def landscape_case(case):
    import jax
    import jax.numpy as jnp
    import numpy as np

    from furax.landscapes import FrequencyLandscape, HealpixLandscape, StokesLandscape
    from mc import probe as P

    probs = []
    dt = {'f32': jnp.float32, 'f64': jnp.float64}[case['dt']]
    if case['dt'] == 'f64' and not jax.config.jax_enable_x64:
        return probs

    class Custom(StokesLandscape):
        def world2pixel(self, theta, phi):
            return (theta, phi)

    jax.tree_util.register_pytree_node_class(Custom)
    if case['land'] == 'healpix':
        land = HealpixLandscape(2, case['stokes'], dt)
    elif case['land'] == 'frequency':
        land = FrequencyLandscape(2, np.array([10.0, 20.0, 30.0]), case['stokes'], dt)
    else:
        land = Custom((3, 2), case['stokes'], dt)
    try:
        leaves, treedef = jax.tree.flatten(land)
        land2 = jax.tree.unflatten(treedef, leaves)
        land3 = jax.tree.unflatten(treedef, leaves)   # the same treedef used again must give the same object again
        if type(land3) is not type(land) or land3.dtype != land.dtype or land3.shape != land.shape or not P.same_struct(land3.structure, land.structure):
            probs.append(('landscape-second-unflatten', f'{type(land).__name__}: second unflatten of the same treedef gives dtype {land3.dtype}, shape {land3.shape}'))
        if jax.tree.structure(land2) != jax.tree.structure(land):
            probs.append(('landscape-treedef-changed', f'{type(land).__name__}: tree structure of the round-tripped object differs'))
    except Exception as e:  # noqa: BLE001
        err = P.LibError('flatten/unflatten', e)
        return [('landscape-roundtrip-raises', f'{type(land).__name__}: {err}\n{err.tb}')]
    if type(land2) is not type(land):
        probs.append(('landscape-roundtrip-class', f'{type(land).__name__} -> {type(land2).__name__}'))
        return probs
    for attr in ('shape', 'dtype', 'stokes', 'pixel_shape', 'nside', 'size'):
        if hasattr(land, attr) and (not hasattr(land2, attr) or getattr(land2, attr) != getattr(land, attr)):
            probs.append(('landscape-roundtrip-attr', f'{type(land).__name__}.{attr}: {getattr(land, attr)!r} -> {getattr(land2, attr, None)!r}'))
    if hasattr(land, 'frequencies') and not np.array_equal(np.asarray(land.frequencies), np.asarray(getattr(land2, 'frequencies', []))):
        probs.append(('landscape-roundtrip-attr', 'frequencies changed'))
    if len(land2) != len(land):
        probs.append(('landscape-roundtrip-attr', f'len {len(land)} -> {len(land2)}'))
    if not P.same_struct(land2.structure, land.structure):
        probs.append(('landscape-roundtrip-structure', f'{land.structure} -> {land2.structure}'))
    f1, f2 = land.full(3), land2.full(3)
    if P.actual_struct_sig(f1) != P.actual_struct_sig(f2) or not np.array_equal(P.flat(f1), P.flat(f2)):
        probs.append(('landscape-roundtrip-full', 'full(3) differs after the round trip'))
    if case['land'] != 'custom':
        th = jnp.asarray([0.3, 1.2, 2.9], dt)
        ph = jnp.asarray([0.1, 4.0, -1.0], dt)
        i1 = np.asarray(land.world2index(th, ph))
        i2 = np.asarray(land2.world2index(th, ph))
        if not np.array_equal(i1, i2):
            probs.append(('landscape-roundtrip-world2index', f'{i1} vs {i2}'))
    else:
        c = np.asarray(land.pixel2index(jnp.asarray([0.0, 1.2, 5.0], dt), jnp.asarray([2.0, 0.4, 0.0], dt)))
        c2 = np.asarray(land2.pixel2index(jnp.asarray([0.0, 1.2, 5.0], dt), jnp.asarray([2.0, 0.4, 0.0], dt)))
        if not np.array_equal(c, c2):
            probs.append(('landscape-roundtrip-pixel2index', f'{c} vs {c2}'))
    return probs


def shared_jit_inv_case(case):
    """ONE filter_jit function receives lazy inverses of the same operator created under configurations that differ in one
    solver setting; each result must equal eager application of that very inverse."""
    import equinox
    import jax
    import jax.numpy as jnp
    import lineax as lx
    import numpy as np

    from furax import Config
    from furax._base.dense import DenseBlockDiagonalOperator
    from mc import probe as P

    f32 = jnp.float32
    a = jax.ShapeDtypeStruct((3,), f32)
    S = DenseBlockDiagonalOperator(jnp.asarray([[4, 1, 0], [1, 3, 1], [0, 1, 2]], f32), a, 'ij,j->i')
    Mi = DenseBlockDiagonalOperator(jnp.asarray(np.linalg.inv(np.array([[4, 1, 0], [1, 3, 1], [0, 1, 2.0]])), f32), a, 'ij,j->i')
    cfgs = {'plain': dict(solver=lx.CG(rtol=1e-6, atol=1e-6, max_steps=2)),
            'precond': dict(solver=lx.CG(rtol=1e-6, atol=1e-6, max_steps=2), solver_options={'preconditioner': Mi}),
            'onestep': dict(solver=lx.CG(rtol=1e-6, atol=1e-6, max_steps=1))}
    fj = equinox.filter_jit(lambda o, x: o.mv(x))
    x = jnp.asarray([1.0, -2.0, 0.5], f32)
    probs = []
    for name in case['shared_jit_inv']:
        with Config(solver_callback=lambda s: None, **cfgs[name]):
            inv = S.I
        with P.quiet():
            ye = np.asarray(inv.mv(x))
            yj = np.asarray(fj(inv, x))
        if not np.allclose(yj, ye, rtol=1e-4, atol=1e-5):
            probs.append(('shared-filter_jit-inverse', f'sequence {case["shared_jit_inv"]}: the inverse created under {name!r} gives {yj} through the shared jitted function but {ye} eagerly'))
            break
    return probs


def jit_ambient_case(case):
    import contextlib

    import equinox
    import jax
    import jax.numpy as jnp
    import lineax as lx
    import numpy as np

    from furax import Config
    from furax._base.dense import DenseBlockDiagonalOperator
    from mc import probe as P

    f32 = jnp.float32
    a = jax.ShapeDtypeStruct((3,), f32)
    S = DenseBlockDiagonalOperator(jnp.asarray([[4, 1, 0], [1, 3, 1], [0, 1, 2]], f32), a, 'ij,j->i')
    Mi = DenseBlockDiagonalOperator(jnp.asarray(np.linalg.inv(np.array([[4, 1, 0], [1, 3, 1], [0, 1, 2.0]])), f32), a, 'ij,j->i')
    cfgs = {'plain': dict(solver=lx.CG(rtol=1e-6, atol=1e-6, max_steps=2)),
            'precond': dict(solver=lx.CG(rtol=1e-6, atol=1e-6, max_steps=2), solver_options={'preconditioner': Mi}),
            'onestep': dict(solver=lx.CG(rtol=1e-6, atol=1e-6, max_steps=1))}

    def under(name):
        return contextlib.nullcontext() if name is None else Config(solver_callback=lambda s: None, **cfgs[name])

    created, first, later = case['jit_ambient']
    x = jnp.asarray([1.0, -2.0, 0.5], f32)
    probs = []
    with P.quiet():
        with under(created):
            inv = S.I
            y0 = np.asarray(inv.mv(x))       # eager, under the configuration the inverse was created in
        jc = jax.jit(lambda v: inv.mv(v))
        fj = equinox.filter_jit(lambda o, v: o.mv(v))
        with under(first):
            firsts = {'eager': np.asarray(inv.mv(x)), 'jit-closure': np.asarray(jc(x)), 'filter_jit-argument': np.asarray(fj(inv, x))}
        with under(later):
            laters = {'eager': np.asarray(inv.mv(x)), 'jit-closure': np.asarray(jc(x)), 'filter_jit-argument': np.asarray(fj(inv, x))}
    for when, res in (('first applied under', firsts), ('applied later under', laters)):
        for label, y in res.items():
            if not np.allclose(y, y0, rtol=1e-4, atol=1e-5):
                probs.append(('jit-vs-eager-under-ambient-configuration',
                              f'inverse created under {created!r}, {when} {first if res is firsts else later!r}: {label} gives {y} but eager application where it was created gave {y0}'))
                return probs
    return probs


def first_use_traced_case(case):
    import equinox
    import jax
    import jax.numpy as jnp
    import numpy as np

    from furax._base.core import AbstractLinearOperator
    from furax.operators.toeplitz import SymmetricBandToeplitzOperator
    from mc import probe as P

    n, K = case['first_use_traced']
    f32 = jnp.float32
    band = np.array([4.0, -1.0, 0.5, 2.0, -0.25, 1.0][:K], np.float32)
    ref = np.zeros((n, n))
    for i in range(n):
        for j in range(n):
            if abs(i - j) < K:
                ref[i, j] = band[abs(i - j)]
    x = np.arange(n, dtype=np.float32) % 5 - 2
    want = ref @ x
    op = SymmetricBandToeplitzOperator(jnp.asarray(band), jax.ShapeDtypeStruct((n,), f32), method=case['method'])
    probs = []
    steps = {'jit': lambda: jax.jit(lambda v: op.mv(v))(jnp.asarray(x)),
             'filter_jit': lambda: equinox.filter_jit(lambda o, v: o.mv(v))(op, jnp.asarray(x)),
             'generic_as_matrix': lambda: AbstractLinearOperator.as_matrix(op) @ jnp.asarray(x),
             'eager': lambda: op.mv(jnp.asarray(x)),
             'as_matrix': lambda: op.as_matrix() @ jnp.asarray(x),
             'second jit': lambda: jax.jit(lambda v: op.mv(v) * 1.0)(jnp.asarray(x)),
             'flatten/unflatten copy': lambda: jax.tree.unflatten(*reversed(jax.tree.flatten(op))).mv(jnp.asarray(x))}
    order = [case['first']] + [k for k in steps if k != case['first']]
    for k in order:
        try:
            y = np.asarray(P.lib(k, steps[k]))
        except P.LibError as e:
            probs.append(('first-use-under-a-trace', f'size {n}, {K} bands, method {case["method"]}: after a first use through {case["first"]}, {k} fails: {e}'))
            break
        if y.shape != want.shape or not np.allclose(y, want, rtol=1e-4, atol=1e-4):
            probs.append(('first-use-under-a-trace', f'size {n}, method {case["method"]}: {k} gives {y[:5]} instead of {want[:5]} (first use was {case["first"]})'))
            break
    return probs


def shared_jit_case(case):
    if 'first_use_traced' in case:
        return first_use_traced_case(case)
    if 'jit_ambient' in case:
        return jit_ambient_case(case)
    if 'shared_jit_inv' in case:
        return shared_jit_inv_case(case)
    """ONE filter_jit function receives, in the given order, operators that differ only in the Python kind of a scalar factor.
    Each result must equal eager application (values, dtype) whatever was compiled before."""
    import equinox
    import jax
    import jax.numpy as jnp
    import numpy as np

    from furax._base.dense import DenseBlockDiagonalOperator
    from mc import probe as P

    probs = []
    for dt in (jnp.float32, jnp.int32):
        a = jax.ShapeDtypeStruct((2,), dt)
        A = DenseBlockDiagonalOperator(jnp.asarray([[1, 2], [3, 5]], dt), a, 'ij,j->i')
        mk = {'2': lambda: 2 * A, '2.0': lambda: 2.0 * A, '2+0j': lambda: (2 + 0j) * A, '-1': lambda: (-1) * A, 'neg': lambda: -A, '-1.0': lambda: (-1.0) * A}
        fj = equinox.filter_jit(lambda o, x: o.mv(x))
        x = jnp.asarray([3, -7], dt)
        for name in case['shared_jit']:
            op = mk[name]()
            ye = P.lib('eager', op.mv, x)
            yj = P.lib('filter_jit', fj, op, x)
            if np.asarray(yj).dtype != np.asarray(ye).dtype or not np.array_equal(np.asarray(yj), np.asarray(ye)):
                probs.append(('shared-filter_jit', f'data {np.dtype(dt)}, sequence {case["shared_jit"]}: ({name}) * A gives {np.asarray(yj).dtype} {np.asarray(yj)} through the shared jitted function but {np.asarray(ye).dtype} {np.asarray(ye)} eagerly'))
                break
    return probs


def run(phase, cases, ctx):
    from mc import unirun

    if phase == 'shared_jit':
        violations = []
        for case in cases:
            try:
                for kind, detail in shared_jit_case(case):
                    violations.append({'kind': kind, 'case': case, 'detail': detail})
            except Exception as e:  # noqa: BLE001
                from mc import probe as P

                err = e if isinstance(e, P.LibError) else P.LibError('shared jit', e)
                violations.append({'kind': 'library-raises', 'case': case, 'detail': f'{err}\n{err.tb}'})
        return {'n': len(cases), 'violations': violations, 'landscape_cases': 0, 'shared_jit_sequences': len(cases)}

    if phase.startswith('land'):
        violations = []
        for case in cases:
            for kind, detail in landscape_case(case):
                violations.append({'kind': kind, 'case': case, 'detail': detail})
        return {'n': len(cases), 'violations': violations, 'landscape_cases': len(cases)}
    return unirun.run(cases, oracle)


def finalize(results, tier, seed):
    from mc import unirun

    ops = {k: v for k, v in results.items() if not k.startswith('land') and k != 'shared_jit'}
    cov = unirun.coverage(ops, 'one case = a specimen or an ordered pair (all composite forms) x {flatten/unflatten, jit over a closure, '
                          'filter_jit with the operator as argument} x 64-bit mode; landscapes: 3 classes x 4 Stokes kinds x dtype; all non-trivial')
    cov['landscape_cases'] = sum(v.get('landscape_cases', 0) for k, v in results.items() if k.startswith('land'))
    cov['cases'] += cov['landscape_cases']
    cov['shared_jit_sequences'] = results['shared_jit'].get('shared_jit_sequences', 0)
    return {'coverage': cov, 'violations': [], 'assumptions': ['boolean-mask selection excluded from the filter_jit-as-argument claim, as the property states']}
