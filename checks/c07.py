"""C07 - reduction reaches the documented normal form in every context.

Space: every well-typed chain of length <= L over the four typed alphabets (this contains every documented pattern
at every position of every context of length <= L-2), plus chains holding TWO patterns separated and surrounded by
context operands (length up to 7).  For each, the real driver `CompositionOperator(chain).reduce()` runs and its result
is checked by
  (1) terminality in the rewrite graph: no registered rule fires on any adjacent pair, IdentityRule / HomothetyRule are
      no-ops (computed with the real rule objects);
  (2) an INDEPENDENT recogniser written from the property text (not from the registry) finds no documented pattern;
  (3) at most one scalar operator, on the side with fewer elements (either end on a tie).
Conformance: the driver's recorded firing trace is replayed as a path of the graph ending in the returned operands.
"""
from __future__ import annotations

import collections
import itertools

from mc import domains

PROPERTY = 'C07'
LEVEL = 'model_checking'
TARGET = 'checks.c07:run'

LENGTHS = {
    'quick': {'POL': 4, 'IDX': 4, 'INV': 3, 'BLK': 3, 'EXT': 4, 'AXT': 3},
    'thorough': {'POL': 5, 'IDX': 5, 'INV': 4, 'BLK': 4, 'EXT': 5, 'AXT': 4},
}

PATTERNS = {
    'POL': [['Rnp', 'R2'], ['R1t', 'Rnp'], ['Is'], ['k2', 'km'], ['R1t', 'R1'], ['R1', 'R2'], ['R1', 'R1t'], ['R2t', 'R1t'], ['R1', 'H'], ['R2t', 'H'], ['Pol', 'H']],
    'IDX': [['Pat', 'Pa'], ['Pr', 'Pr'], ['Pu', 'Put'], ['Ps', 'Pst'], ['Pm', 'Pmt'], ['Pk', 'Pkt'], ['Pt', 'P'], ['Rv', 'Rvt'], ['Rvt', 'Rv'],
            ['Rs', 'Rst'], ['Rst', 'Rs'], ['M01', 'M10'], ['M10', 'M01'], ['I4'], ['Pn'], ['Rn']],
    'INV': [['Si', 'S'], ['S', 'Si'], ['Di', 'D'], ['D', 'Di'], ['k2', 'km'], ['I'], ['Yti', 'Yt'], ['Yt', 'Yti']],
    'AXT': [['Ma', 'Mb'], ['Mb', 'Ma'], ['Me', 'Mf'], ['kt', 'kt']],
    'EXT': [['Dw', 'Pw', 'kh'], ['Kb', 'Dw', 'Pw'], ['U', 'V'], ['V', 'W'], ['K', 'K'], ['I'], ['Ub', 'Vb']],
    'BLK': [['Dh', 'Dr'], ['Dh', 'Dh'], ['Bm', 'Bmi'], ['Bvt', 'Bv'], ['Bv', 'Bvt'], ['Rw', 'Dg'], ['Dg', 'Dg'], ['Dg', 'Cl'], ['Rw', 'Cl'], ['Dr', 'Drt'], ['Ddi', 'Dd'], ['DgI'], ['RwT', 'Dr'], ['Dr', 'ClT'], ['RwT', 'ClT']],
}
CONTEXT = {
    'POL': ['R2', 'H', 'k2', 'Pol', 'k4'],
    'IDX': ['D3', 'D4', 'k3', 'k4', 'P', 'Rv', 'M01', 'Pu'],
    'INV': ['Q', 'Dx', 'km', 'Sx'],
    'BLK': ['P', 'k2', 'kL', 'Dgt', 'Cl', 'Rw'],
    'EXT': ['P', 'G', 'Gt', 'K', 'W'],
    'AXT': ['Dt', 'Mc', 'Mg', 'kt'],
}


def two_pattern_chains(dom, tier):
    t = domains.TYPES[dom]
    ctx = [[]] + [[x] for x in CONTEXT[dom]]
    out = []
    for p1, p2 in itertools.product(PATTERNS[dom], repeat=2):
        for c0, c1, c2 in itertools.product(ctx if tier == 'thorough' else [[]], ctx, ctx if tier == 'thorough' else [[]]):
            chain = c0 + p1 + c1 + p2 + c2
            if all(t[chain[i]][0] == t[chain[i + 1]][1] for i in range(len(chain) - 1)):
                out.append(chain)
    return out


def plan(tier, seed):
    from mc import imporder

    return _plan(tier, seed) + [imporder.phase(tier, 'core')]


def _plan(tier, seed):
    phases = []
    for dom, L in LENGTHS[tier].items():
        chains = domains.typed_chains(dom, L, min_len=2)
        seen = {tuple(c) for c in chains}
        extra = [c for c in two_pattern_chains(dom, tier) if tuple(c) not in seen]
        uniq = []
        for c in extra:
            if tuple(c) not in seen:
                seen.add(tuple(c))
                uniq.append(c)
        cases = [{'dom': dom, 'chain': c} for c in chains] + [{'dom': dom, 'chain': c, 'two': True} for c in uniq]
        phases.append({'name': f'nf_{dom}', 'target': TARGET, 'x64': False, 'ctx': {'dom': dom}, 'cases': cases,
                       'chunk': max(20, len(cases) // 160)})
    return phases


# ------------------------------------------------------------------------------------------ worker
# what the harness TOLD the IndexOperator constructor (atom name -> unique_indices argument; None = argument not given):
# the recogniser must not take the operator's own word for it
DECLARED_UNIQUE = {'IDX': {'P': None, 'Pu': True, 'Pa': None, 'Pp': None, 'P1': None}, 'EXT': {'Pw': None}}


# lazy inverses the harness built as X.I (inverse atom, inverted atom): "an operator next to its own lazy inverse" is decided by
# construction, not by the identity test the library's rule happens to use
LAZY_INVERSE_PAIRS = {'INV': [('Si', 'S'), ('Yti', 'Yt')]}


def same_graph(x, y) -> bool:
    """x and y are the same object, or wrappers of the same class around (recursively) the same object."""
    if x is y:
        return True
    return type(x) is type(y) and hasattr(x, 'operator') and hasattr(y, 'operator') and same_graph(x.operator, y.operator)


def recognise(ops, declared=None, inv_pairs=()) -> list[str]:
    """Independent recogniser of the documented patterns (written from the property text).
    declared: {id(index operator): unique_indices argument given at construction} for the operators the harness built."""
    declared = declared or {}

    def told_unique(op):
        return bool(declared[id(op)]) if id(op) in declared else bool(op.unique_indices)

    import jax
    import numpy as np

    from furax._base.axes import AbstractRavelOrReshapeOperator, MoveAxisOperator, ReshapeTransposeOperator
    from furax._base.blocks import BlockColumnOperator, BlockDiagonalOperator, BlockRowOperator
    from furax._base.core import AbstractLazyInverseOperator, AbstractLinearOperator, HomothetyOperator, IdentityOperator, TransposeOperator
    from furax._base.indices import IndexOperator
    from furax._base.linear import PackOperator
    from furax.operators.hwp import HWPOperator
    from furax.operators.polarizers import LinearPolarizerOperator
    from furax.operators.qu_rotations import QURotationOperator, QURotationTransposeOperator

    found = []
    if len(ops) >= 2 and any(isinstance(o, IdentityOperator) for o in ops):
        found.append('identity factor left in a chain')
    if sum(isinstance(o, HomothetyOperator) for o in ops) >= 2:
        found.append('several scalar factors left')
    rot = (QURotationOperator, QURotationTransposeOperator)
    is_op = lambda x: isinstance(x, AbstractLinearOperator)  # noqa: E731
    for i in range(len(ops) - 1):
        a, b = ops[i], ops[i + 1]
        where = f'at {i}: ({type(a).__name__}, {type(b).__name__})'
        for img_inv, img_op in inv_pairs:
            if (same_graph(a, img_inv) and same_graph(b, img_op)) or (same_graph(a, img_op) and same_graph(b, img_inv)):
                found.append(f'operator next to the lazy inverse the harness built from it {where}')
        if isinstance(a, AbstractLazyInverseOperator) and a.operator is b or isinstance(b, AbstractLazyInverseOperator) and b.operator is a:
            found.append(f'operator next to its own lazy inverse {where}')
        if isinstance(a, rot) and isinstance(b, rot):
            found.append(f'consecutive QU rotations {where}')
        if isinstance(a, rot) and isinstance(b, HWPOperator):
            found.append(f'rotation then HWP {where}')
        if isinstance(a, LinearPolarizerOperator) and isinstance(b, HWPOperator):
            found.append(f'polariser then HWP {where}')
        for ca, cb in ((BlockRowOperator, BlockDiagonalOperator), (BlockDiagonalOperator, BlockDiagonalOperator),
                       (BlockDiagonalOperator, BlockColumnOperator), (BlockRowOperator, BlockColumnOperator)):
            if type(a) is ca and type(b) is cb:
                if jax.tree.structure(a.blocks, is_leaf=is_op) == jax.tree.structure(b.blocks, is_leaf=is_op):
                    found.append(f'adjacent block operators with the same layout {where}')
        if type(b) is TransposeOperator and b.operator is a:
            if isinstance(a, PackOperator) or (isinstance(a, IndexOperator) and told_unique(a)):
                found.append(f'P @ P.T for duplicate-free indexing/packing {where}')
        if type(a) is TransposeOperator and a.operator is b and isinstance(b, IndexOperator) and not told_unique(b):
            arrs = [x for x in b.indices if hasattr(x, 'dtype') and np.issubdtype(np.asarray(x).dtype, np.integer)]
            non_trivial = [x for x in b.indices if not (isinstance(x, slice) and x == slice(None)) and x is not Ellipsis]
            shapes = {tuple(l.shape) for l in jax.tree.leaves(b.in_structure())}
            if len(non_trivial) == 1 and len(arrs) == 1 and len(shapes) == 1:
                found.append(f'P.T @ P for a single indexed axis {where}')
        if isinstance(a, ReshapeTransposeOperator) and a.operator is b and isinstance(b, AbstractRavelOrReshapeOperator):
            found.append(f'reshape.T @ reshape {where}')
        if isinstance(b, ReshapeTransposeOperator) and b.operator is a and isinstance(a, AbstractRavelOrReshapeOperator):
            found.append(f'reshape @ reshape.T {where}')
        if isinstance(a, MoveAxisOperator) and isinstance(b, MoveAxisOperator) and a.source == b.destination and a.destination == b.source:
            found.append(f'mutually inverse move-axes {where}')
    return found


def nested_chains(op, depth=0):
    """Yields operand lists of compositions nested inside block / sum operands."""
    from furax._base.blocks import AbstractBlockOperator
    from furax._base.core import AdditionOperator, CompositionOperator

    if depth > 4:
        return
    subs = []
    if isinstance(op, AbstractBlockOperator):
        subs = op.block_leaves
    elif isinstance(op, AdditionOperator):
        subs = op.operand_leaves
    for s in subs:
        if isinstance(s, CompositionOperator):
            yield list(s.operands)
            for o in s.operands:
                yield from nested_chains(o, depth + 1)
        else:
            yield from nested_chains(s, depth + 1)


def scalar_placement(ops) -> str | None:
    from furax._base.core import HomothetyOperator

    idx = [i for i, o in enumerate(ops) if isinstance(o, HomothetyOperator)]
    if len(idx) != 1 or len(ops) < 2:
        return None
    out_size, in_size = ops[0].out_size(), ops[-1].in_size()
    i = idx[0]
    if i not in (0, len(ops) - 1):
        return f'the scalar factor sits at position {i} of {len(ops)} (not at an end)'
    if out_size < in_size and i != 0:
        return f'scalar on the input side although the output has fewer elements ({out_size} < {in_size})'
    if in_size < out_size and i != len(ops) - 1:
        return f'scalar on the output side although the input has fewer elements ({in_size} < {out_size})'
    return None


def run(phase, cases, ctx):
    from checks import c01
    from furax._base.core import CompositionOperator, IdentityOperator
    from mc import probe as P
    from mc import xstate
    from mc.pool import CaseTimeout

    dom = ctx['dom']
    env = c01.get_explorer(dom).env
    with P.quiet():   # what reduce() makes of the inverse atoms and of the atoms they invert, each on its own
        inv_pairs = [(env.atoms[i].reduce(), env.atoms[o].reduce()) for i, o in LAZY_INVERSE_PAIRS.get(dom, [])]
    violations = []
    counters = collections.Counter()
    nontrivial = set()
    samples = []
    states = set()
    terminals = set()
    for case in cases:
        ops = [env.atoms[n] for n in case['chain']]
        try:
            with xstate.Recorder() as rec, xstate.Timeout(60), P.quiet():
                red = CompositionOperator(list(ops)).reduce()
        except CaseTimeout:
            violations.append({'kind': 'nontermination', 'case': case, 'detail': 'reduce() did not return within 60 s'})
            continue
        except BaseException as e:  # noqa: BLE001
            err = P.LibError('reduce', e)
            violations.append({'kind': 'reduce-raises', 'case': case, 'detail': f'{err}\n{err.tb}'})
            continue
        res_ops = list(red.operands) if isinstance(red, CompositionOperator) else [red]
        counters['driver_runs'] += 1
        counters['firings'] += len(rec.log)
        states.add(xstate.h64(env.chain_key(ops)))
        rk = xstate.h64(env.chain_key(res_ops))
        states.add(rk)
        terminals.add(rk)
        if rec.log or len(res_ops) != len(ops):
            nontrivial.add(' '.join(case['chain']))
            if len(samples) < 3:
                samples.append({'chain': case['chain'], 'result': xstate.describe(env, res_ops), 'firings': [r[0] for r in rec.log]})
        # (1) terminality with the real rules
        try:
            succ = [s for s in xstate.successors(env, res_ops) if s[0] != 'reduce-operand'
                    and not (s[0] == 'IdentityRule' and len(res_ops) == 1)]  # a lone identity IS the normal form of I
        except P.LibError as e:
            succ = []
            violations.append({'kind': 'result-unusable', 'case': case, 'detail': str(e)})
        for label, pos, nxt in succ:
            if isinstance(nxt, P.LibError):
                violations.append({'kind': 'rule-exception-on-result', 'case': case, 'detail': f'{label}@{pos}: {nxt}'})
            else:
                violations.append({'kind': 'not-terminal', 'case': case, 'rule': label,
                                   'detail': f'result {xstate.describe(env, res_ops)} is still reducible: {label}@{pos} -> {xstate.describe(env, nxt)} (firings {[r[0] for r in rec.log]})'})
        # (2) independent recogniser, top level and nested compositions
        for chain in [res_ops] + [c for o in res_ops for c in nested_chains(o)]:
            for f in recognise(chain, {id(env.atoms[n]): v for n, v in DECLARED_UNIQUE.get(dom, {}).items() if n in env.atoms}, inv_pairs):
                violations.append({'kind': 'pattern-left', 'case': case,
                                   'detail': f'{f} in {xstate.describe(env, chain)} (result {xstate.describe(env, res_ops)})'})
        # (2b) the normal form is a fixed point: reducing the result again must not change it
        try:
            with xstate.Timeout(60), P.quiet():
                red2 = red.reduce()
            ops2 = list(red2.operands) if isinstance(red2, CompositionOperator) else [red2]
            if env.chain_key(ops2) != env.chain_key(res_ops):
                violations.append({'kind': 'not-a-fixed-point', 'case': case,
                                   'detail': f'reduce() gives {xstate.describe(env, res_ops)} but reducing that again gives {xstate.describe(env, ops2)}'})
        except CaseTimeout:
            violations.append({'kind': 'nontermination', 'case': case, 'detail': 'second reduce() did not return within 60 s'})
        except BaseException as e:  # noqa: BLE001
            err = P.LibError('reduce of the reduced operator', e)
            violations.append({'kind': 'reduce-raises', 'case': case, 'detail': f'{err}\n{err.tb}'})
        # (3) scalar placement
        sp = scalar_placement(res_ops)
        if sp:
            violations.append({'kind': 'scalar-placement', 'case': case, 'detail': f'{sp}; result {xstate.describe(env, res_ops)}'})
        # conformance
        try:
            start = [o.reduce() for o in ops]
            ok = xstate.replay_trace(env, start, rec.log, res_ops) or (isinstance(red, IdentityOperator) and xstate.replay_trace(env, start, rec.log, []))
            counters['traces_validated' if ok else 'traces_unvalidated'] += 1
        except BaseException:  # noqa: BLE001
            counters['traces_unvalidated'] += 1
    return {'n': len(cases), 'violations': violations, 'counters': counters, 'nontrivial': nontrivial, 'samples': samples,
            'states': states, 'terminals': terminals}


def finalize(results, tier, seed):
    counters = collections.Counter()
    nontrivial = 0
    roots = 0
    samples = []
    states = set()
    terminals = set()
    per = {}
    for name, res in results.items():
        counters.update(res['counters'])
        nontrivial += len(res['nontrivial'])
        roots += res['n']
        samples += res['samples'][:2]
        states |= res['states']
        terminals |= res['terminals']
        per[name] = {'chains': res['n'], 'chains_rewritten': len(res['nontrivial'])}
    cov = {
        'states': len(states), 'transitions': counters['firings'], 'terminal_states': len(terminals),
        'traces_validated_against_impl': counters['traces_validated'], 'traces_unvalidated': counters['traces_unvalidated'],
        'evaluations': roots, 'distinct_nontrivial': nontrivial, 'per_domain': per,
        'rule': 'chains = all well-typed chains up to the length bound per domain + two-pattern chains with contexts; '
                'states = distinct (root, result) canonical chains, transitions = rule firings recorded from the real driver; '
                'non-trivial = the driver fired at least one rule or shortened the chain',
        'samples': samples, 'exhaustive': True, 'length_bounds': LENGTHS[tier],
    }
    return {'coverage': cov, 'violations': [], 'assumptions': ['the recogniser is deliberately narrower than the rules where the property text is silent']}
