"""C20 - Stokes containers and pytree helpers act leaf-wise and consistently.

4 kinds x ops {+,-,*,/,**} x direct/reflected x right-hand operands {int, float, 0-d jnp, jnp array of the component
shape, broadcastable (1,)-array, same-kind container} with pairwise distinct non-commutative values; unary -, abs, +;
indexing by int / slice / int array / mask; ravel, reshape, @ (dot); other-kind container / None / str => TypeError.
Factories zeros/ones/full/normal/uniform/structure_for x shapes {(), (2,), (2,3)} x dtypes; from_stokes with 1-4
positional arguments of mixed dtypes (promotion), 0 and 5 arguments, keyword form; from_iquv per kind; class_for on EVERY
string over {I,Q,U,V,i,q,u,v} of length <= 4 (exactly four accepted).  Helpers on a pytree alphabet (array, tuple, dict,
nested, Stokes; real, complex, mixed dtype; arrays and ShapeDtypeStructs): dot == sum of numpy.vdot (conjugation on the
first argument), *_like, as_structure, as_promoted_dtype, normal_like / uniform_like, is_leaf.
Reference: dict of numpy arrays.
"""
from __future__ import annotations

import collections
import itertools
import json

PROPERTY = 'C20'
LEVEL = 'exploration'
TARGET = 'checks.c20:run'
KINDS = ['I', 'QU', 'IQU', 'IQUV']
OPS = ['add', 'sub', 'mul', 'truediv', 'pow']
OPERANDS = ['int', 'float', 'jnp0d', 'jnparr', 'jnp1', 'same', 'complex', 'jnpbig']
TREES = ['real_then_complex', 'np_single', 'np_nested_single', 'arr', 'tuple', 'dict', 'nested', 'stokes', 'complex', 'mixed', 'mixed_same_shape', 'empty_tuple']


def plan(tier, seed):
    arith = [{'kind': k, 'op': o, 'refl': r, 'rhs': h, 'shape': s} for k in KINDS for o in OPS for r in (False, True) for h in OPERANDS for s in ([2], [2, 3])]
    arith += [{'kind': k, 'op': o, 'refl': r, 'rhs': h, 'shape': [2], 'int': True} for k in ('QU', 'IQUV') for o in ('add', 'sub', 'mul', 'truediv') for r in (False, True) for h in ('float', 'jnp0d', 'int')]
    arith += [{'seq': o, 'kind': k, 'int': i} for o in ('fwd', 'rev') for k in ('I', 'IQU') for i in (False, True)]
    unary = [{'kind': k, 'unary': u, 'shape': s} for k in KINDS for u in ('neg', 'abs', 'pos', 'idx_int', 'idx_slice', 'idx_arr', 'idx_mask', 'ravel', 'reshape', 'matmul', 'bad_operands', 'props') for s in ([2], [2, 3])]
    # 0-d and size-1 components: ravel / reshape / sign operations at the lower boundary of the rank
    unary += [{'kind': k, 'unary': u, 'shape': s} for k in KINDS for u in ('neg', 'abs', 'pos', 'ravel', 'reshape', 'matmul') for s in ([], [1], [1, 1])]
    unary += [{'kind': k, 'unary': u, 'shape': [3, 2, 4]} for k in KINDS for u in ('idx_int_slice_arr', 'idx_arr_slice_arr', 'idx_int_ell_arr', 'idx_newaxis_arr', 'idx_mixed_dtypes')]
    fact = [{'kind': k, 'factory': f, 'shape': s, 'dt': d} for k in KINDS for f in ('zeros', 'ones', 'full', 'normal', 'uniform', 'structure_for', 'from_iquv')
            for s in ([], [2], [2, 3]) for d in ('float32', 'float16', 'int32')]
    fs = [{'from_stokes': n, 'dts': list(d)} for n in range(0, 6) for d in itertools.product(('float32', 'float16'), repeat=min(n, 2))] + [{'from_stokes': 'kw'}]
    alphabet = 'IQUViquv'
    strings = [''.join(w) for n in range(0, 5) for w in itertools.product(alphabet, repeat=n)]
    cf = [{'class_for': strings[i::16]} for i in range(16)]
    helpers = [{'helper': h, 'tree': t} for h in ('dot', 'like', 'as_structure', 'as_promoted_dtype', 'random_like', 'is_leaf') for t in TREES]
    return [
        {'name': 'arith', 'target': TARGET, 'x64': False, 'cases': arith, 'chunk': 30},
        {'name': 'unary', 'target': TARGET, 'x64': False, 'cases': unary, 'chunk': 8},
        {'name': 'factories', 'target': TARGET, 'x64': False, 'cases': fact + fs, 'chunk': 20},
        {'name': 'class_for', 'target': TARGET, 'x64': False, 'cases': cf, 'chunk': 1},
        {'name': 'helpers', 'target': TARGET, 'x64': False, 'cases': helpers, 'chunk': 4},
        {'name': 'helpers_x64', 'target': TARGET, 'x64': True, 'cases': helpers + fact[::5], 'chunk': 6},
    ]


PR = [2.0, 3.0, 5.0, 7.0, 11.0, 13.0, 17.0, 19.0, 23.0, 29.0, 31.0, 37.0, 41.0, 43.0, 47.0, 53.0, 59.0, 61.0, 67.0, 71.0, 73.0, 79.0, 83.0, 89.0]


def comp_data(kind, shape, off=0):
    import numpy as np

    n = int(np.prod(shape)) if shape else 1
    out = {}
    for j, c in enumerate(kind):
        v = np.array([PR[(i + 6 * j + off) % len(PR)] * 0.25 for i in range(n)], np.float32).reshape(shape)
        out[c.lower()] = v
    return out


def run(phase, cases, ctx):
    import operator

    import jax
    import jax.numpy as jnp
    import numpy as np

    import furax.tree as ft
    from furax.landscapes import StokesIPyTree, StokesIQUPyTree, StokesIQUVPyTree, StokesPyTree, StokesQUPyTree
    from mc import probe as P

    violations = []
    counters = collections.Counter()
    nontrivial = set()

    def bad(case, kind, detail):
        violations.append({'kind': kind, 'case': case, 'detail': detail})

    def mk(kind, data):
        return StokesPyTree.class_for(kind)(*[jnp.asarray(data[c.lower()]) for c in kind])

    def same(a, b, tol=0.0):
        a, b = np.asarray(a), np.asarray(b)
        if a.shape != b.shape:
            return False
        if tol == 0:
            return bool(np.array_equal(a, b))
        return bool(np.allclose(a, b, rtol=tol, atol=tol))

    for case in cases:
        counters['cases'] += 1
        try:
            if 'op' in case:
                kind, shape = case['kind'], tuple(case['shape'])
                d = comp_data(kind, shape)
                if case.get('int'):   # integer-valued components: a float operand must promote the result, not be truncated
                    d = {k_: (v * 4).astype(np.int32) for k_, v in d.items()}
                x = mk(kind, d)
                rhs_kind = case['rhs']
                if rhs_kind == 'int':
                    r, rn = 3, {c.lower(): 3 for c in kind}
                elif rhs_kind == 'float':
                    r, rn = 1.5, {c.lower(): 1.5 for c in kind}
                elif rhs_kind == 'jnp0d':
                    r, rn = jnp.asarray(2.5, jnp.float32), {c.lower(): np.float32(2.5) for c in kind}
                elif rhs_kind == 'jnparr':
                    arr = comp_data('I', shape, off=11)['i']
                    r, rn = jnp.asarray(arr), {c.lower(): arr for c in kind}
                elif rhs_kind == 'complex':
                    r, rn = 1.5 - 2j, {c.lower(): 1.5 - 2j for c in kind}
                elif rhs_kind == 'jnpbig':   # one more leading axis than the components: broadcasting enlarges the result
                    arr = np.stack([comp_data('I', shape, off=11)['i'], comp_data('I', shape, off=17)['i']])
                    r, rn = jnp.asarray(arr), {c.lower(): arr for c in kind}
                elif rhs_kind == 'jnp1':
                    arr = np.array([1.75], np.float32)
                    r, rn = jnp.asarray(arr), {c.lower(): arr for c in kind}
                else:
                    d2 = comp_data(kind, shape, off=5)
                    r, rn = mk(kind, d2), d2
                f = getattr(operator, case['op'])
                res = f(r, x) if case['refl'] else f(x, r)
                if type(res) is not type(x):
                    bad(case, 'arith-type', f'result is {type(res).__name__}')
                    continue
                for c in kind:
                    a, b = (rn[c.lower()], d[c.lower()]) if case['refl'] else (d[c.lower()], rn[c.lower()])
                    cast = (lambda z: z) if case.get('int') else (lambda z: np.asarray(z, np.float32))
                    want = f(cast(a) if not np.isscalar(a) else a, cast(b) if not np.isscalar(b) else b)
                    got = np.asarray(getattr(res, c.lower()))
                    if np.iscomplexobj(want) != np.iscomplexobj(got) or (case.get('int') and np.asarray(want).dtype.kind != got.dtype.kind):
                        bad(case, 'arith-dtype', f'component {c}: result dtype {got.dtype}, numpy gives {np.asarray(want).dtype}')
                        break
                    if got.shape != np.shape(want) or not np.allclose(got, want, rtol=3e-6, atol=0):
                        bad(case, 'arith-value', f'component {c}: {got.ravel()[:4]} vs {np.asarray(want).ravel()[:4]}')
                        break
                    # "component-wise": exactly what the same operator gives on the component array alone (value and dtype)
                    rc = getattr(r, c.lower()) if rhs_kind == 'same' else r
                    xc = getattr(x, c.lower())
                    alone = np.asarray(f(rc, xc) if case['refl'] else f(xc, rc))
                    if alone.dtype != got.dtype or not np.array_equal(alone, got, equal_nan=True):
                        bad(case, 'arith-not-componentwise', f'component {c}: container gives {got.dtype} {got.ravel()[:4]}, the component alone gives {alone.dtype} {alone.ravel()[:4]}')
                        break
                nontrivial.add(json.dumps(case))
            elif 'seq' in case:
                # a history of scalar operations on ONE container: equal-but-differently-typed scalars, signed zeros, in both orders
                kind = case['kind']
                d = comp_data(kind, (2, 3))
                if case.get('int'):
                    d = {k_: (v * 4).astype(np.int32) for k_, v in d.items()}
                x = mk(kind, d)
                hist = [('mul', 3.0), ('mul', 3), ('mul', 3 + 0j), ('pow', 2.0), ('pow', 2), ('add', 1), ('add', 1 + 0j), ('add', 1.0), ('truediv', 0.0),
                        ('truediv', -0.0), ('truediv', 0), ('truediv', 3), ('truediv', 3.0), ('truediv', 7), ('truediv', 0.3), ('sub', 0.0), ('sub', -0.0), ('mul', -0.0), ('mul', 0.0)]
                if case['seq'] == 'rev':
                    hist = hist[::-1]
                import warnings

                for opn, sc in hist:
                    f = getattr(operator, opn)
                    for refl in (False, True):
                        if opn == 'pow' and refl:
                            continue
                        with warnings.catch_warnings():
                            warnings.simplefilter('ignore')
                            try:
                                res = f(sc, x) if refl else f(x, sc)
                            except Exception as e:  # noqa: BLE001
                                bad(case, 'arith-raises', f'{"scalar " + opn + " container" if refl else "container " + opn + " scalar"} with {sc!r}: {type(e).__name__}: {e}')
                                break
                            ok = True
                            for c in kind:
                                xc = getattr(x, c.lower())
                                alone = np.asarray(f(sc, xc) if refl else f(xc, sc))
                                got = np.asarray(getattr(res, c.lower()))
                                if alone.dtype != got.dtype or not np.array_equal(alone, got, equal_nan=True) or not np.array_equal(np.signbit(alone.real), np.signbit(got.real)):
                                    bad(case, 'arith-not-componentwise', f'{opn} with {sc!r} ({"reflected" if refl else "direct"}), component {c}: container gives {got.dtype} {got.ravel()[:3]}, the component alone gives {alone.dtype} {alone.ravel()[:3]}')
                                    ok = False
                                    break
                            if not ok:
                                break
                    else:
                        continue
                    break
                nontrivial.add(json.dumps(case))
            elif 'unary' in case:
                kind, shape = case['kind'], tuple(case['shape'])
                d = comp_data(kind, shape)
                d = {k: v * (-1 if i % 2 else 1) for i, (k, v) in enumerate(d.items())}
                d = {k: np.where(np.arange(v.size).reshape(v.shape) % 2 == 0, v, -v).astype(np.float32) for k, v in d.items()}
                x = mk(kind, d)
                u = case['unary']
                refs = None
                if u == 'neg':
                    res, refs = -x, {k: -v for k, v in d.items()}
                elif u == 'abs':
                    res, refs = abs(x), {k: np.abs(v) for k, v in d.items()}
                elif u == 'pos':
                    res, refs = +x, d
                elif u == 'idx_int':
                    res, refs = x[1], {k: v[1] for k, v in d.items()}
                elif u == 'idx_slice':
                    res, refs = x[::-1], {k: v[::-1] for k, v in d.items()}
                elif u == 'idx_arr':
                    ia = np.array([1, 0, 1])
                    res, refs = x[jnp.asarray(ia)], {k: v[ia] for k, v in d.items()}
                elif u in ('idx_int_slice_arr', 'idx_arr_slice_arr', 'idx_int_ell_arr', 'idx_newaxis_arr', 'idx_mixed_dtypes'):
                    # several index items at once: an integer or an index array separated from another index array by a slice or
                    # an ellipsis (NumPy then moves the broadcast dimension to the front), index arrays as long as the container
                    # has components, and components of different dtypes
                    for n_ia in (len(kind), 2, 5):
                        ia = np.array([(3 * q + 1) % 4 for q in range(n_ia)])
                        ib = np.array([(q + 2) % 3 for q in range(n_ia)])
                        np_idx = {'idx_int_slice_arr': (1, slice(None), ia), 'idx_arr_slice_arr': (ib, slice(None), ia), 'idx_int_ell_arr': (2, Ellipsis, ia),
                                  'idx_newaxis_arr': (None, ib, slice(None, None, -1), ia), 'idx_mixed_dtypes': (slice(None), 1, ia)}[u]
                        j_idx = tuple(jnp.asarray(i) if isinstance(i, np.ndarray) else i for i in np_idx)
                        xx, dd = x, d
                        if u == 'idx_mixed_dtypes':
                            dts_ = [np.float16, np.float32, np.int32, np.float32]
                            dd = {k: (v * 4).astype(dts_[i]) for i, (k, v) in enumerate(d.items())}
                            xx = mk(kind, dd)
                        r_ = xx[j_idx]
                        for k, v in dd.items():
                            g = np.asarray(getattr(r_, k))
                            if g.shape != v[np_idx].shape or g.dtype != v.dtype or not np.array_equal(g, v[np_idx]):
                                bad(case, 'unary-value', f'{u} with index arrays of length {n_ia}: component {k} has shape {g.shape} dtype {g.dtype}, numpy indexing of that component gives shape {v[np_idx].shape} dtype {v.dtype}')
                                break
                    res, refs = x, d
                elif u == 'idx_mask':
                    m = np.zeros(shape, bool)
                    m.ravel()[0] = True
                    m.ravel()[-1] = True
                    res, refs = x[jnp.asarray(m)], {k: v[m] for k, v in d.items()}
                elif u == 'ravel':
                    res, refs = x.ravel(), {k: v.ravel() for k, v in d.items()}
                elif u == 'reshape':
                    tgt = (int(np.prod(shape)), 1)
                    res, refs = x.reshape(tgt), {k: v.reshape(tgt) for k, v in d.items()}
                elif u == 'matmul':
                    d2 = comp_data(kind, shape, off=9)
                    got = float(x @ mk(kind, d2))
                    want = float(sum(np.vdot(d[k], d2[k]) for k in d))
                    if abs(got - want) > 1e-4 * abs(want):
                        bad(case, 'matmul-dot', f'{got} vs {want}')
                    nontrivial.add(json.dumps(case))
                    continue
                elif u == 'bad_operands':
                    others = [k for k in KINDS if k != kind]
                    wrong = [mk(others[0], comp_data(others[0], shape)), None, 'abc']
                    for w in wrong:
                        for o in ('add', 'sub', 'mul', 'truediv', 'pow'):
                            for refl in (False, True):
                                try:
                                    getattr(operator, o)(w, x) if refl else getattr(operator, o)(x, w)
                                    bad(case, 'bad-operand-accepted', f'{o} with {type(w).__name__} (reflected={refl}) did not raise TypeError')
                                except TypeError:
                                    counters['rejections'] += 1
                    try:
                        x @ mk(others[0], comp_data(others[0], shape))
                        bad(case, 'bad-operand-accepted', '@ with another kind')
                    except TypeError:
                        counters['rejections'] += 1
                    nontrivial.add(json.dumps(case))
                    continue
                elif u == 'props':
                    if x.shape != shape or np.dtype(x.dtype) != np.float32 or x.stokes != kind:
                        bad(case, 'props', f'{x.shape} {x.dtype} {x.stokes}')
                    st = x.structure
                    if not P.same_struct(st, type(x)(*[jax.ShapeDtypeStruct(shape, jnp.float32)] * len(kind))):
                        bad(case, 'props', f'structure {st}')
                    nontrivial.add(json.dumps(case))
                    continue
                if type(res) is not type(x):
                    bad(case, 'unary-type', type(res).__name__)
                    continue
                for c in kind:
                    if not same(getattr(res, c.lower()), refs[c.lower()]):
                        bad(case, 'unary-value', f'{u} component {c}: {np.asarray(getattr(res, c.lower())).ravel()[:4]} vs {np.asarray(refs[c.lower()]).ravel()[:4]}')
                        break
                nontrivial.add(json.dumps(case))
            elif 'factory' in case:
                kind, shape, dt = case['kind'], tuple(case['shape']), np.dtype(case['dt'])
                cls = StokesPyTree.class_for(kind)
                f = case['factory']
                key = jax.random.PRNGKey(3)
                if f in ('normal', 'uniform') and dt.kind != 'f':
                    continue
                if f == 'zeros':
                    res, want = cls.zeros(shape, dt), 0
                elif f == 'ones':
                    res, want = cls.ones(shape, dt), 1
                elif f == 'full':
                    res, want = cls.full(shape, 3, dt), 3
                elif f == 'normal':
                    res, want = cls.normal(key, shape, dt), None
                elif f == 'uniform':
                    res, want = cls.uniform(shape, key, dt, 2.0, 3.0), 'range'
                elif f == 'structure_for':
                    res, want = cls.structure_for(shape, dt), 'struct'
                else:
                    comps = [jnp.full(shape, v, d_) for v, d_ in zip((1, 2, 3, 4), (dt, np.float32, dt, np.float32))]
                    res = cls.from_iquv(*comps)
                    pick = {'I': [0], 'QU': [1, 2], 'IQU': [0, 1, 2], 'IQUV': [0, 1, 2, 3]}[kind]
                    pdt = jnp.result_type(*[comps[i] for i in pick])
                    for c, i in zip(kind, pick):
                        g = getattr(res, c.lower())
                        if np.dtype(g.dtype) != np.dtype(pdt) or not same(g, np.full(shape, i + 1)):
                            bad(case, 'from_iquv', f'kind {kind} component {c}: dtype {g.dtype} value {np.asarray(g).ravel()[:2]} (expected {i + 1}, dtype {pdt})')
                    nontrivial.add(json.dumps(case))
                    continue
                if type(res) is not cls:
                    bad(case, 'factory-type', type(res).__name__)
                    continue
                leaves = [getattr(res, c.lower()) for c in kind]
                for c, l in zip(kind, leaves):
                    if tuple(l.shape) != shape or np.dtype(l.dtype) != dt:
                        bad(case, 'factory-structure', f'{f}: component {c} has shape {l.shape} dtype {l.dtype}, expected {shape} {dt}')
                        break
                    if isinstance(want, int) and not same(l, np.full(shape, want)):
                        bad(case, 'factory-value', f'{f}: component {c} = {np.asarray(l).ravel()[:3]}')
                        break
                    if want == 'range' and not (np.all(np.asarray(l) >= 2.0) and np.all(np.asarray(l) <= 3.0)):
                        bad(case, 'factory-value', f'uniform outside [2,3]: {np.asarray(l).ravel()[:3]}')
                        break
                else:
                    if f in ('normal', 'uniform') and len(kind) > 1 and int(np.prod(shape)) >= 2:
                        if same(leaves[0], leaves[1]):
                            bad(case, 'factory-value', f'{f}: components are identical (not independent draws)')
                nontrivial.add(json.dumps(case))
            elif 'from_stokes' in case:
                n = case['from_stokes']
                if n == 'kw':
                    r1 = StokesPyTree.from_stokes(np.array([1.0, 2.0]))   # a NumPy float64 array: canonicalised like any other leaf
                    if not isinstance(r1, StokesIPyTree) or np.dtype(r1.i.dtype) != np.dtype(jnp.result_type(np.array([1.0]))) or not isinstance(r1.i, jax.Array):
                        bad(case, 'from_stokes-single-numpy', f'{type(r1.i).__name__} {r1.i.dtype}')
                    r = StokesPyTree.from_stokes(Q=jnp.ones(2), U=jnp.zeros(2))
                    if not isinstance(r, StokesQUPyTree) or not same(r.q, np.ones(2)):
                        bad(case, 'from_stokes-keywords', f'{type(r).__name__}')
                    r = StokesPyTree.from_stokes(I=jnp.ones(2), U=2 * jnp.ones(2), Q=3 * jnp.ones(2))
                    if not isinstance(r, StokesIQUPyTree) or not same(r.q, 3 * np.ones(2)) or not same(r.u, 2 * np.ones(2)):
                        bad(case, 'from_stokes-keywords', 'IQU keyword order')
                    for kw in ({'I': 1, 'Q': 2}, {'X': 1}):
                        try:
                            StokesPyTree.from_stokes(**{k: jnp.ones(2) for k in kw})
                            bad(case, 'from_stokes-keywords', f'{sorted(kw)} accepted')
                        except TypeError:
                            pass
                    try:
                        StokesPyTree.from_stokes(jnp.ones(2), Q=jnp.ones(2))
                        bad(case, 'from_stokes-keywords', 'positional and keyword mixed accepted')
                    except TypeError:
                        pass
                else:
                    dts = case['dts']
                    args = [jnp.full((2,), k + 1, dtype=dts[k % len(dts)] if dts else 'float32') for k in range(n)]
                    try:
                        r = StokesPyTree.from_stokes(*args)
                        ok = True
                    except (TypeError, ValueError):
                        ok = False
                    if n in (0, 5):
                        if ok:
                            bad(case, 'from_stokes-arity', f'{n} arguments accepted')
                    elif not ok:
                        bad(case, 'from_stokes-arity', f'{n} arguments rejected')
                    else:
                        cls = {1: StokesIPyTree, 2: StokesQUPyTree, 3: StokesIQUPyTree, 4: StokesIQUVPyTree}[n]
                        pdt = jnp.result_type(*args)
                        if type(r) is not cls:
                            bad(case, 'from_stokes-type', type(r).__name__)
                        for k, l in enumerate(jax.tree.leaves(r)):
                            if np.dtype(l.dtype) != np.dtype(pdt) or not same(l, np.full((2,), k + 1)):
                                bad(case, 'from_stokes-promotion', f'leaf {k}: dtype {l.dtype} (promoted {pdt}) value {np.asarray(l)}')
                nontrivial.add(json.dumps(case))
            elif 'class_for' in case:
                accepted = []
                for s in case['class_for']:
                    try:
                        c = StokesPyTree.class_for(s)
                        accepted.append(s)
                        if c.stokes != s:
                            bad(case, 'class_for', f'{s!r} -> {c.__name__}')
                    except ValueError:
                        counters['class_for_rejections'] += 1
                    except Exception as e:  # noqa: BLE001
                        bad(case, 'class_for', f'{s!r}: {type(e).__name__}')
                counters['class_for_strings'] += len(case['class_for'])
                for s in accepted:
                    if s not in ('I', 'QU', 'IQU', 'IQUV'):
                        bad(case, 'class_for', f'unknown Stokes kind {s!r} accepted')
                counters['class_for_accepted'] += len(accepted)
                nontrivial.add(json.dumps(case['class_for'][:2]))
            elif 'helper' in case:
                x64 = bool(jax.config.jax_enable_x64)
                t = case['tree']
                a1 = np.array([1.0, -2.0, 3.0], np.float32)
                a2 = np.array([[2.0, 0.5], [-1.0, 4.0]], np.float32)
                c1 = np.array([1 + 2j, -3j, 0.5], np.complex64)
                trees = {
                    'arr': jnp.asarray(a1), 'tuple': (jnp.asarray(a1), jnp.asarray(a2)), 'dict': {'b': jnp.asarray(a2), 'a': jnp.asarray(a1)},
                    'nested': {'a': [jnp.asarray(a1), (jnp.asarray(a2),)], 'b': jnp.asarray(2.0, jnp.float32)},
                    'stokes': StokesQUPyTree(jnp.asarray(a1), jnp.asarray(-a1)), 'complex': (jnp.asarray(c1), jnp.asarray(a1)),
                    'mixed': {'h': jnp.asarray(a1, jnp.float16), 's': jnp.asarray(a2), 'i': jnp.asarray([1, 2], jnp.int32)}, 'empty_tuple': (),
                    'real_then_complex': {'a': jnp.asarray(a1), 'b': jnp.asarray(c1), 'c': jnp.asarray(c1 * (2 - 1j))},
                    'np_single': np.array([1.0, -2.0, 3.0]), 'np_nested_single': {'a': [np.array([4, 5, 6])]},
                    'mixed_same_shape': {'a': jnp.asarray([1, 2, 3], jnp.int32), 'b': jnp.asarray(a1), 'c': jnp.asarray(a1, jnp.float16), 'd': jnp.asarray([4, 5, 6], jnp.uint8)},
                }
                x = trees[t]
                leaves = jax.tree.leaves(x)

                def cdt(o):   # NumPy leaves wider than the mode allows are canonicalised by JAX (float64 -> float32 with 64-bit mode off)
                    return np.dtype(jax.dtypes.canonicalize_dtype(o.dtype))
                h = case['helper']
                if h == 'dot':
                    y = jax.tree.map(lambda l: (l * (2 - 1j) if jnp.iscomplexobj(l) else l * 2 + 1), x)
                    got = complex(ft.dot(x, y))
                    want = complex(sum(np.vdot(np.asarray(a), np.asarray(b)) for a, b in zip(leaves, jax.tree.leaves(y))))
                    if abs(got - want) > 1e-3 * (1 + abs(want)):
                        bad(case, 'dot', f'{got} vs sum of vdot {want}')
                    got2 = complex(ft.dot(y, x))
                    if abs(got2 - np.conj(want)) > 1e-3 * (1 + abs(want)):
                        bad(case, 'dot', f'dot(y,x) = {got2} is not the conjugate of dot(x,y) = {want}')
                elif h == 'like':
                    for src in (x, ft.as_structure(x)):
                        for fn, val in ((ft.zeros_like, 0), (ft.ones_like, 1), (lambda q: ft.full_like(q, 3), 3)):
                            r = fn(src)
                            if jax.tree.structure(r) != jax.tree.structure(x):
                                bad(case, 'like-treedef', f'{jax.tree.structure(r)}')
                                break
                            for l, o in zip(jax.tree.leaves(r), leaves):
                                if l.shape != o.shape or np.dtype(l.dtype) != cdt(o) or not same(l, np.full(o.shape, val, dtype=cdt(o))):
                                    bad(case, 'like-leaf', f'shape {l.shape} dtype {l.dtype} vs {o.shape} {cdt(o)}')
                                    break
                elif h == 'as_structure':
                    s = ft.as_structure(x)
                    if jax.tree.structure(s) != jax.tree.structure(x):
                        bad(case, 'as_structure', 'treedef differs')
                    for l, o in zip(jax.tree.leaves(s), leaves):
                        if not isinstance(l, jax.ShapeDtypeStruct) or tuple(l.shape) != tuple(o.shape) or np.dtype(l.dtype) != cdt(o):
                            bad(case, 'as_structure', f'{l} vs {o.shape} {cdt(o)}')
                elif h == 'as_promoted_dtype':
                    if leaves:
                        want = jnp.result_type(*leaves)
                        for src in (x, ft.as_structure(x)):
                            r = ft.as_promoted_dtype(src)
                            if jax.tree.structure(r) != jax.tree.structure(x):
                                bad(case, 'as_promoted_dtype', 'treedef differs')
                            for l, o in zip(jax.tree.leaves(r), leaves):
                                if np.dtype(l.dtype) != np.dtype(want) or tuple(l.shape) != tuple(o.shape):
                                    bad(case, 'as_promoted_dtype', f'leaf dtype {l.dtype}, promoted {want}')
                                elif not isinstance(l, jax.ShapeDtypeStruct) and not same(l, np.asarray(o).astype(want)):
                                    bad(case, 'as_promoted_dtype', 'values changed')
                elif h == 'random_like':
                    if t in ('complex', 'real_then_complex', 'mixed', 'mixed_same_shape', 'empty_tuple', 'np_nested_single'):
                        continue
                    key = jax.random.PRNGKey(1)
                    for fn in (lambda q: ft.normal_like(q, key), lambda q: ft.uniform_like(q, key, 2.0, 3.0)):
                        for src in (x, ft.as_structure(x)):
                            r = fn(src)
                            if jax.tree.structure(r) != jax.tree.structure(x):
                                bad(case, 'random_like', 'treedef differs')
                            for l, o in zip(jax.tree.leaves(r), leaves):
                                if l.shape != o.shape or np.dtype(l.dtype) != cdt(o):
                                    bad(case, 'random_like', f'{l.shape} {l.dtype} vs {o.shape} {cdt(o)}')
                    # bounds given as NumPy scalars, NumPy 0-d arrays and strongly typed JAX scalars: the template's dtypes stay
                    for lo, hi in ((np.float32(2), np.float32(3)), (np.sqrt(4.0), np.float64(3)), (np.array(2.0, np.float32), np.array(3.0)), (jnp.asarray(2.0, jnp.float32), jnp.asarray(3.0, jnp.float32)), (2, 3)):
                        for src in (x, ft.as_structure(x), jax.tree.map(lambda l: jnp.asarray(l, jnp.float16) if jnp.issubdtype(jnp.asarray(l).dtype, jnp.floating) else l, x)):
                            r = ft.uniform_like(src, key, lo, hi)
                            for l, o in zip(jax.tree.leaves(r), jax.tree.leaves(src)):
                                if l.shape != o.shape or np.dtype(l.dtype) != cdt(o):
                                    bad(case, 'random_like', f'uniform_like with bounds of type {type(lo).__name__}/{type(hi).__name__}: leaf {l.shape} {l.dtype} for template {o.shape} {np.dtype(o.dtype)}')
                                elif not (np.all(np.asarray(l, np.float64) >= 2.0) and np.all(np.asarray(l, np.float64) <= 3.0)):
                                    bad(case, 'random_like', f'uniform_like with bounds of type {type(lo).__name__}: values outside [2, 3]')
                    r = ft.uniform_like(x, key, 2.0, 3.0)
                    if not all(np.all(np.asarray(l) >= 2.0) and np.all(np.asarray(l) <= 3.0) for l in jax.tree.leaves(r)):
                        bad(case, 'random_like', 'uniform_like outside [low, high]')
                    ls = jax.tree.leaves(ft.normal_like(x, key))
                    if len(ls) >= 2 and ls[0].shape == ls[1].shape and ls[0].size > 1 and same(ls[0], ls[1]):
                        bad(case, 'random_like', 'leaves share the same random key')
                elif h == 'is_leaf':
                    want = t in ('arr', 'np_single')
                    if t != 'empty_tuple' and ft.is_leaf(x) != want:  # an empty container is unspecified
                        bad(case, 'is_leaf', f'is_leaf({t}) = {ft.is_leaf(x)}')
                    if not ft.is_leaf(jnp.ones(2)) or not ft.is_leaf(jax.ShapeDtypeStruct((2,), jnp.float32)) or ft.is_leaf((jnp.ones(2),)):
                        bad(case, 'is_leaf', 'basic cases')
                nontrivial.add(json.dumps(case))
        except Exception as e:  # noqa: BLE001
            err = P.LibError('stokes/tree', e)
            violations.append({'kind': 'library-raises', 'case': case, 'detail': f'{err}\n{err.tb}'})
    return {'n': len(cases), 'violations': violations, 'counters': counters, 'nontrivial': nontrivial, 'samples': cases[:1]}


def finalize(results, tier, seed):
    counters = collections.Counter()
    nontrivial = set()
    samples = []
    n = 0
    for name, r in results.items():
        counters.update(r['counters'])
        nontrivial |= {name[-3:] + k for k in r['nontrivial']}
        samples += [s if 'class_for' not in s else {'class_for': s['class_for'][:5]} for s in r['samples'][:1]]
        n += r['n']
    violations = []
    if counters['class_for_accepted'] != 4:
        violations.append({'kind': 'class_for-count', 'case': {'class_for': 'all'}, 'phase': 'class_for', 'target': TARGET,
                           'detail': f'{counters["class_for_accepted"]} strings accepted out of {counters["class_for_strings"]} (exactly 4 expected)'})
    cov = {'evaluations': n, 'distinct_nontrivial': len(nontrivial), 'samples': samples, 'exhaustive': True,
           'class_for_strings': counters['class_for_strings'], 'class_for_accepted': counters['class_for_accepted'], 'type_rejections': counters['rejections'],
           'rule': 'arith: kind x op x direct/reflected x operand type x shape; unary/indexing; factories x shape x dtype; from_stokes arities x dtypes; '
                   'class_for over all 4681 strings; helpers x pytree alphabet; all non-trivial (compared with a dict-of-numpy reference)'}
    return {'coverage': cov, 'violations': violations, 'assumptions': ['float32 arithmetic compared within 3e-6 relative for / and **']}
