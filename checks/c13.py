"""C13 - axis operators are exact relabellings of array elements.

Leaf shapes of rank 1-3 with dims in {1,2,3}.  Move-axis: every (source, destination) of ints or tuples (length <= 3)
over [-rank, rank) that numpy.moveaxis accepts.  Ravel: every (first, last) in [-3,2]^2 that is in range for the leaf.
Reshape: every target over the divisors of the size, with one -1, with a wrong size, with two -1, with a negative size.
Two-leaf pytrees with different ranks.  Oracle: numpy.moveaxis / explicit flattening / numpy.reshape on distinct-prime
data (exact); op.T(op(x)) == x and op(op.T(y)) == y (a relabelling's transpose is its inverse); constructor raises
exactly for the illegal arguments the property names; reduce() is the identity iff every leaf shape is unchanged;
an operator followed by its transpose reduces to the identity.
"""
from __future__ import annotations

import collections
import itertools
import json

PROPERTY = 'C13'
LEVEL = 'exploration'
TARGET = 'checks.c13:run'
DIMS = (1, 2, 3)
LEAFS = [list(s) for r in (1, 2, 3) for s in itertools.product(DIMS, repeat=r)]
TREES = [[[2, 3], [3]], [[2, 1, 3], [2, 3]], [[3], [3, 2, 2]], [[1, 2], [2, 2, 3]], [[2, 3], [3, 2]]]


def plan(tier, seed):
    quick3 = ([2, 1, 3], [1, 2, 3], [3, 2, 2], [2, 3, 1], [1, 1, 2], [2, 2, 2])
    leafs = LEAFS if tier == 'thorough' else [l for l in LEAFS if len(l) < 3 or l in [list(q) for q in quick3]]
    cases = []
    for k in ('moveaxis', 'ravel', 'reshape'):
        for l in leafs:
            parts = 12 if (k == 'moveaxis' and len(l) == 3) else 1
            cases += [{'op': k, 'leafs': [l], 'part': [p, parts]} for p in range(parts)]
        for t in TREES:
            parts = 4 if k == 'moveaxis' else 1
            cases += [{'op': k, 'leafs': t, 'part': [p, parts]} for p in range(parts)]
        cases += [{'op': k, 'leafs': [l], 'part': [0, 1]} for l in ([0], [0, 3], [2, 0], [1, 0, 2])]   # empty leaves are legal shapes
    pair_trees = [[[2, 3, 2], [2, 3, 2, 2]], [[2, 3], [2, 3, 2]], [[2, 2], [2, 2, 2]]] + ([[[3, 2, 2], [2, 2]], [[2, 1, 3], [2, 3, 1, 2]]] if tier == 'thorough' else [])
    pairs = [{'pairs': t, 'part': [p, 8]} for t in pair_trees for p in range(8)]
    pairs += [{'pairs2': [2, 3, 4], 'part': [p, 16]} for p in range(16)]
    pairs += [{'spellings': [2, 3, 4, 2], 'k': k} for k in range(4)]   # axes given as ints / tuples / lists the caller goes on using   # two-axis moves, every pairing, on one rank-3 leaf
    return [{'name': 'grid', 'target': TARGET, 'x64': False, 'cases': cases, 'chunk': 1},
            {'name': 'pairs', 'target': TARGET, 'x64': False, 'cases': pairs, 'chunk': 1}]


def divisors_shapes(size, maxlen=3):
    out = set()
    divs = [d for d in range(1, size + 1) if size % d == 0]
    for L in range(1, maxlen + 1):
        for t in itertools.product(divs, repeat=L):
            p = 1
            for d in t:
                p *= d
            if p == size:
                out.add(t)
    return sorted(out)


def run(phase, cases, ctx):
    import jax
    import jax.numpy as jnp
    import numpy as np

    from furax._base.axes import MoveAxisOperator, RavelOperator, ReshapeOperator
    from furax._base.core import CompositionOperator, IdentityOperator
    from mc import probe as P

    f32 = jnp.float32
    PR = [2, 3, 5, 7, 11, 13, 17, 19, 23, 29, 31, 37, 41, 43, 47, 53, 59, 61, 67, 71, 73, 79, 83, 89, 97, 101, 103]
    violations = []
    counters = collections.Counter()
    nontrivial = set()

    def data(shape, k):
        n = int(np.prod(shape))
        return np.array([PR[(i + k) % len(PR)] * (1 if i % 2 else -1) for i in range(n)], np.float32).reshape(shape)

    def struct(leafs):
        s = [jax.ShapeDtypeStruct(tuple(l), f32) for l in leafs]
        return s[0] if len(s) == 1 else {'p': s[0], 'q': s[1]}

    def pack(arrs):
        return jnp.asarray(arrs[0]) if len(arrs) == 1 else {'p': jnp.asarray(arrs[0]), 'q': jnp.asarray(arrs[1])}

    def unpack(y, n):
        return [np.asarray(y)] if n == 1 else [np.asarray(y['p']), np.asarray(y['q'])]

    def check(case, args, build, reference, legal):
        """build() -> op ; reference(x) -> expected array per leaf ; legal: bool per the property"""
        one = dict(case, args=args)
        counters['constructions'] += 1
        leafs = case['leafs']
        try:
            op = build()
            built = True
        except (ValueError, TypeError, IndexError, ZeroDivisionError):
            built = False
        except Exception as e:  # noqa: BLE001
            violations.append({'kind': 'unexpected-exception', 'case': one, 'detail': f'{type(e).__name__}: {e}'})
            return
        if legal is not None and built != legal:
            violations.append({'kind': 'accepts-illegal' if built else 'rejects-legal', 'case': one, 'detail': f'{case["op"]}{args} on leaf shapes {leafs}'})
            return
        if not built:
            counters['rejected'] += 1
            return
        nontrivial.add(json.dumps(one))
        counters['legal'] += 1
        try:
            xs = [data(l, 3 + 5 * i) for i, l in enumerate(leafs)]
            ys = unpack(op.mv(pack(xs)), len(leafs))
            wants = [reference(x) for x in xs]
            for y, w in zip(ys, wants):
                if y.shape != w.shape or not np.array_equal(y, w):
                    violations.append({'kind': 'wrong-result', 'case': one, 'detail': f'got shape {y.shape} {y.ravel()[:8]}, numpy gives shape {w.shape} {w.ravel()[:8]}'})
                    return
            outs = jax.tree.leaves(op.out_structure())
            if [tuple(o.shape) for o in outs] != [w.shape for w in wants]:
                violations.append({'kind': 'out-structure', 'case': one, 'detail': f'{op.out_structure()}'})
                return
            T = op.T
            back = unpack(T.mv(pack(wants)), len(leafs))
            for b, x in zip(back, xs):
                if b.shape != x.shape or not np.array_equal(b, x):
                    violations.append({'kind': 'transpose-is-not-inverse', 'case': one, 'detail': f'op.T(op(x)) = {b.ravel()[:8]} (shape {b.shape}) but x = {x.ravel()[:8]} (shape {x.shape})'})
                    return
            # op(op.T(y)) == y with different data
            ys2 = [data(w.shape, 11) for w in wants]
            fwd = unpack(op.mv(T.mv(pack(ys2))), len(leafs))
            for f, y2 in zip(fwd, ys2):
                if f.shape != y2.shape or not np.array_equal(f, y2):
                    violations.append({'kind': 'transpose-is-not-inverse', 'case': one, 'detail': 'op(op.T(y)) != y'})
                    return
            unchanged = all(w.shape == x.shape for w, x in zip(wants, xs))
            red = op.reduce()
            if isinstance(red, IdentityOperator) and not unchanged:
                violations.append({'kind': 'reduced-to-identity-wrongly', 'case': one, 'detail': f'leaf shapes change {leafs} -> {[w.shape for w in wants]} but reduce() gives the identity'})
            if case['op'] != 'moveaxis' and unchanged and not isinstance(red, IdentityOperator):
                violations.append({'kind': 'not-reduced-to-identity', 'case': one, 'detail': 'every leaf shape is unchanged but reduce() keeps the operator'})
            if unchanged and isinstance(red, IdentityOperator):
                # the map itself must then be the identity
                if not all(np.array_equal(y, x) for y, x in zip(ys, xs)):
                    violations.append({'kind': 'reduced-to-identity-wrongly', 'case': one, 'detail': 'reduce() gives the identity but the operator permutes elements'})
            for pair in (CompositionOperator([T, op]), CompositionOperator([op, T])):
                r2 = pair.reduce()
                if not isinstance(r2, IdentityOperator):
                    # must at least denote the identity
                    src = pack(xs) if pair.operands[-1] is op else pack(wants)
                    got = jax.tree.leaves(r2.mv(src))
                    if not all(np.array_equal(np.asarray(g), np.asarray(s_)) for g, s_ in zip(got, jax.tree.leaves(src))):
                        violations.append({'kind': 'inverse-pair-wrong', 'case': one, 'detail': 'op.T @ op (reduced) is not the identity map'})
                    counters['inverse_pairs_not_collapsed'] += 1
                else:
                    counters['inverse_pairs_collapsed'] += 1
        except Exception as e:  # noqa: BLE001
            err = P.LibError(case['op'], e)
            violations.append({'kind': 'library-raises', 'case': one, 'detail': f'{err}\n{err.tb}'})

    for case in cases:
        if 'spellings' in case:
            # the same two-axis move written with tuples, with lists, and with lists the caller changes afterwards: same operator;
            # a list-spelled move next to its tuple-spelled inverse is an inverse pair like any other
            leaf = case['spellings']
            st = struct([leaf])
            x = data(leaf, 3)
            combos = [((0, 1), (2, 3)), ((1, 0), (2, 3)), ((0, 3), (1, 0)), ((-1, 0), (0, -1))]
            src, dst = combos[case['k']]
            try:
                ref_op = MoveAxisOperator(src, dst, in_structure=st)
                want = np.moveaxis(x, src, dst)
                ls, ld = list(src), list(dst)
                op = MoveAxisOperator(ls, ld, in_structure=st)
                T_before = op.T
                y1 = np.asarray(op.mv(jnp.asarray(x)))
                ls.reverse()
                ld[0] = ld[-1]
                y2 = np.asarray(op.mv(jnp.asarray(x)))
                back = np.asarray(T_before.mv(jnp.asarray(want)))
                if not (y1.shape == want.shape and np.array_equal(y1, want) and y2.shape == want.shape and np.array_equal(y2, want) and np.array_equal(back, x)):
                    violations.append({'kind': 'depends-on-the-callers-list', 'case': case,
                                       'detail': f'MoveAxis({list(src)}, {list(dst)}) built from lists: result before the lists changed has shape {y1.shape}, afterwards {y2.shape}, numpy {want.shape}; op.T taken earlier inverts: {np.array_equal(back, x)}'})
                for a_args, b_args in (((list(dst), list(src)), (src, dst)), ((dst, src), (list(src), list(dst))), ((list(dst), list(src)), (list(src), list(dst)))):
                    B = MoveAxisOperator(*b_args, in_structure=st)
                    A = MoveAxisOperator(*a_args, in_structure=B.out_structure())
                    red = CompositionOperator([A, B]).reduce()
                    counters['pair_products'] += 1
                    if not isinstance(red, IdentityOperator):
                        violations.append({'kind': 'inverse-pair-not-collapsed', 'case': case,
                                           'detail': f'MoveAxis{a_args} @ MoveAxis{b_args} (mutually inverse, one spelled with lists) reduces to {type(red).__name__}; the tuple-spelled pair reduces to '
                                                     f'{type(CompositionOperator([MoveAxisOperator(dst, src, in_structure=ref_op.out_structure()), ref_op]).reduce()).__name__}'})
                    else:
                        counters['pair_products_collapsed'] += 1
                nontrivial.add(json.dumps(case))
            except Exception as e:  # noqa: BLE001
                err = P.LibError('moveaxis spellings', e)
                violations.append({'kind': 'library-raises', 'case': case, 'detail': f'{err}\n{err.tb}'})
            continue
        if 'pairs2' in case:
            leaf = case['pairs2']
            st = struct([leaf])
            x = data(leaf, 3)
            moves = [(list(s_), list(d_)) for s_ in itertools.permutations(range(3), 2) for d_ in itertools.permutations(range(3), 2)]
            p, parts = case['part']
            k = 0
            for (s2, d2), (s1, d1) in itertools.product(moves, repeat=2):
                k += 1
                if k % parts != p:
                    continue
                one = dict(case, args=[s1, d1, s2, d2])
                if 'args' in case and case['args'] != [s1, d1, s2, d2]:
                    continue
                counters['pair_products'] += 1
                try:
                    B = MoveAxisOperator(tuple(s2), tuple(d2), in_structure=st)
                    A = MoveAxisOperator(tuple(s1), tuple(d1), in_structure=B.out_structure())
                    want = np.moveaxis(np.moveaxis(x, s2, d2), s1, d1)
                    red = CompositionOperator([A, B]).reduce()
                    got = np.asarray(red.mv(jnp.asarray(x)))
                    if got.shape != want.shape or not np.array_equal(got, want) or tuple(jax.tree.leaves(red.out_structure())[0].shape) != want.shape:
                        violations.append({'kind': 'moveaxis-pair-reduced-wrongly', 'case': one,
                                           'detail': f'MoveAxis({s1},{d1}) @ MoveAxis({s2},{d2}) on shape {leaf} reduces to {type(red).__name__} mapping to shape {got.shape} (declared {red.out_structure()}) instead of {want.shape}'})
                    if isinstance(red, IdentityOperator):
                        counters['pair_products_collapsed'] += 1
                    nontrivial.add(json.dumps(one))
                except Exception as e:  # noqa: BLE001
                    err = P.LibError('moveaxis pair', e)
                    violations.append({'kind': 'library-raises', 'case': one, 'detail': f'{err}\n{err.tb}'})
            continue
        if 'pairs' in case:
            # every ordered pair of single-axis move-axis operators (all spellings in [-rmin, rmin)) on a two-leaf pytree whose
            # leaves have different ranks: (A @ B).reduce() must denote A after B, whatever the spellings
            leafs = case['pairs']
            st = struct(leafs)
            rmin = min(len(l) for l in leafs)
            axes = list(range(-rmin, rmin))
            xs = [data(l, 3 + 5 * i) for i, l in enumerate(leafs)]
            p, parts = case['part']
            k = 0
            for s1, d1, s2, d2 in itertools.product(axes, repeat=4):
                k += 1
                if k % parts != p:
                    continue
                counters['pair_products'] += 1
                one = dict(case, args=[s1, d1, s2, d2])
                if 'args' in case and case['args'] != [s1, d1, s2, d2]:
                    continue
                try:
                    B = MoveAxisOperator(s2, d2, in_structure=st)
                    A = MoveAxisOperator(s1, d1, in_structure=B.out_structure())
                    want = [np.moveaxis(np.moveaxis(x, s2, d2), s1, d1) for x in xs]
                    red = CompositionOperator([A, B]).reduce()
                    got = unpack(red.mv(pack(xs)), len(leafs))
                    for g, w in zip(got, want):
                        if g.shape != w.shape or not np.array_equal(g, w):
                            violations.append({'kind': 'moveaxis-pair-reduced-wrongly', 'case': one,
                                               'detail': f'MoveAxis({s1},{d1}) @ MoveAxis({s2},{d2}) on leaf shapes {leafs} reduces to {type(red).__name__}, which maps a leaf to shape {g.shape} {g.ravel()[:6]} instead of {w.shape} {w.ravel()[:6]}'})
                            break
                    if isinstance(red, IdentityOperator):
                        counters['pair_products_collapsed'] += 1
                    nontrivial.add(json.dumps(one))
                except Exception as e:  # noqa: BLE001
                    err = P.LibError('moveaxis pair', e)
                    violations.append({'kind': 'library-raises', 'case': one, 'detail': f'{err}\n{err.tb}'})
            continue
        leafs = case['leafs']
        st = struct(leafs)
        rmin = min(len(l) for l in leafs)
        only = case.get('args')
        if case['op'] == 'moveaxis':
            axes = list(range(-rmin, rmin))
            forms = [(s, d) for s in axes for d in axes]
            for L in (2, 3):
                if L <= rmin:
                    forms += [(list(s), list(d)) for s in itertools.permutations(axes, L) for d in itertools.permutations(axes, L)] if rmin <= 2 or L == 2 else \
                             [(list(s), list(d)) for s in itertools.permutations(range(rmin), L) for d in itertools.permutations(axes, L)]
            p, parts = case.get('part', [0, 1])
            for fi, (s, d) in enumerate(forms):
                if only is not None and [s, d] != only:
                    continue
                if only is None and fi % parts != p:
                    continue
                try:
                    for l in leafs:
                        np.moveaxis(np.zeros(l), s, d)
                except Exception:  # noqa: BLE001  numpy rejects (duplicates): not a legal argument, nothing is claimed
                    continue
                ss = s if isinstance(s, int) else tuple(s)
                dd = d if isinstance(d, int) else tuple(d)
                check(case, [s, d], lambda: MoveAxisOperator(ss, dd, in_structure=st), lambda x: np.moveaxis(x, s, d), True)
        elif case['op'] == 'ravel':
            for first, last in itertools.product(range(-3, 3), repeat=2):
                if only is not None and [first, last] != only:
                    continue
                in_range = all(-len(l) <= first < len(l) and -len(l) <= last < len(l) for l in leafs)
                if not in_range:
                    continue
                legal = all((first % len(l)) <= (last % len(l)) for l in leafs)

                def reference(x, first=first, last=last):
                    f, la = first % x.ndim, last % x.ndim
                    return x.reshape(x.shape[:f] + (-1,) + x.shape[la + 1:]) if f != la else x

                check(case, [first, last], lambda: RavelOperator(first, last, in_structure=st), reference, legal)
        else:
            sizes = {int(np.prod(l)) for l in leafs}
            targets = set()
            for size in sizes:
                for t in divisors_shapes(size):
                    targets.add(t)
                    for i in range(len(t)):
                        targets.add(t[:i] + (-1,) + t[i + 1:])
                targets |= {(size + 1,), (-1, size + 1), (-1, -1), (-2, size), (-1, -2)}
                if size == 0:   # target shapes of empty leaves spell out a zero
                    targets |= {(0,), (3, 0), (0, 3), (0, -1), (-1, 0), (0, 1), (2, 0), (-1, 3), (1,), (1, 0, 2), (2, 0, 1), (0, 0), (-1, 2, 0)}
                for k in range(2, size + 2):   # known sizes that fit in the leaf but may not divide it
                    targets |= {(k, -1), (-1, k), (1, k, -1)}
            for t in sorted(targets):
                if only is not None and list(t) != only:
                    continue
                legal = True
                for l in leafs:
                    try:
                        np.zeros(l).reshape(t)
                    except Exception:  # noqa: BLE001
                        legal = False
                if any(d < -1 for d in t):
                    legal = False
                check(case, list(t), lambda: ReshapeOperator(t, in_structure=st), lambda x: x.reshape(t), legal)
    return {'n': len(cases), 'violations': violations, 'counters': counters, 'nontrivial': nontrivial, 'samples': cases[:1]}


def finalize(results, tier, seed):
    r = results['grid']
    c = r['counters'] + results['pairs']['counters']
    r['nontrivial'] |= results['pairs']['nontrivial']
    cov = {'evaluations': c['constructions'] + c['pair_products'], 'distinct_nontrivial': len(r['nontrivial']), 'samples': r['samples'][:3], 'exhaustive': True,
           'legal': c['legal'], 'rejected': c['rejected'], 'inverse_pairs_collapsed': c['inverse_pairs_collapsed'],
           'inverse_pairs_not_collapsed': c['inverse_pairs_not_collapsed'], 'moveaxis_pair_products': c['pair_products'], 'moveaxis_pair_products_collapsed': c['pair_products_collapsed'],
           'rule': 'one evaluation = one constructor call (operator x leaf shape(s) x argument tuple); non-trivial = legal, so that the action, '
                   'the transpose, reduce() and the inverse pair were all compared with numpy'}
    return {'coverage': cov, 'violations': [], 'assumptions': ['numpy.moveaxis / reshape are the specification named by the property']}
