"""C10 - block operators act as the block matrices of their blocks.

BEX: 3 block classes x 7 container shapes (arity 1..3, tuple, dict with unsorted keys, nested dict, nested list, a bare
operator) x block tuples (dense square / rectangular, diagonal, identity, scalar, rotation on Stokes, blocks whose own
input or output is a pytree).  Reference: hstack / block_diag / vstack of the basis probes of the blocks in pytree-leaf
order.  Also: as_matrix, transposes (class, container, matrix), block-wise inverse, refusals of mismatching shared
structures, and - for every ordered pair of block operators that type-check, incl. differently nested containers -
(X @ Y).reduce() denotes probe(X) probe(Y), and is a single block operator (a sum for row x column) when the two
containers are identical.  History: equinox.tree_at replacing the first / last block by another block of the same spaces gives
the block matrix of the NEW blocks (application, as_matrix, structures) and leaves the original operator as it was.
"""
from __future__ import annotations

import collections
import itertools
import json

PROPERTY = 'C10'
LEVEL = 'exploration'
TARGET = 'checks.c10:run'

CONTAINERS = ['list1', 'list2', 'tuple3', 'dict2', 'dictnested3', 'nested2', 'bare1', 'list6', 'dict7']
# block name -> (in, out) space label
BLOCKS = {
    'P': ('a', 'a'), 'Q': ('a', 'a'), 'D': ('a', 'a'), 'D2': ('a', 'a'), 'I': ('a', 'a'), 'K': ('a', 'a'),
    'G': ('a', 'b'), 'G2': ('a', 'b'), 'W': ('b', 'a'), 'R': ('s', 's'), 'Rt': ('s', 's'), 'Hs': ('s', 's'),
    'It2': ('aa', 'aa'), 'Bk': ('aa', 'a'), 'Ck': ('a', 'aa'),
    # same shapes, different dtypes: only the dtype distinguishes the shared structure
    'P16': ('a16', 'a16'), 'I16': ('a16', 'a16'), 'Pc': ('ac', 'ac'), 'G16': ('a16', 'b16'),
    'Pcr': ('a', 'ac'), 'P16w': ('a16', 'a'),   # block values wider than the block's input: the block matrix is wider than every input
}
TRIPLES = {
    'diag': [['Pcr', 'P', 'D'], ['P16w', 'I16', 'P16'], ['Hs', 'Hs', 'Hs'], ['P', 'Q', 'D', 'D2', 'I', 'K', 'Q'], ['P', 'G', 'D'], ['I', 'K', 'Q'], ['R', 'P', 'W'], ['D', 'D2', 'K'], ['It2', 'P', 'Bk'], ['Rt', 'R', 'Hs'], ['Q', 'P', 'D2'], ['D2', 'I', 'D']],
    'row': [['P', 'Q', 'D', 'D2', 'I', 'K', 'Q'], ['R', 'Rt', 'R'], ['P', 'Q', 'D'], ['G', 'G2', 'G'], ['Bk', 'P', 'K'], ['I', 'K', 'Q'], ['D', 'D2', 'I']],
    'col': [['Q', 'D2', 'P', 'K', 'D', 'P', 'I'], ['Rt', 'R', 'Rt'], ['P', 'Q', 'D'], ['G', 'P', 'K'], ['Ck', 'G2', 'I'], ['W', 'W', 'W'], ['D2', 'D', 'Q']],
}


def arity(cont):
    return int(cont[-1])


def op_cases():
    out = []
    for cls, triples in TRIPLES.items():
        for cont in CONTAINERS:
            for t in triples:
                if len(t) < arity(cont):
                    continue
                if arity(cont) < 6 and len(t) > 3:
                    continue
                out.append({'cls': cls, 'cont': cont, 'blocks': t[: arity(cont)]})
    seen, uniq = set(), []
    for c in out:
        k = json.dumps(c)
        if k not in seen:
            seen.add(k)
            uniq.append(c)
    return uniq


def mismatch_cases():
    out = []
    names = list(BLOCKS)
    for x, y in itertools.product(names, repeat=2):
        out.append({'mismatch': 'row', 'blocks': [x, y]})
        out.append({'mismatch': 'col', 'blocks': [x, y]})
    return out


def plan(tier, seed):
    from mc import imporder

    return _plan(tier, seed) + [imporder.phase(tier, 'blocks')]


def _plan(tier, seed):
    ops = op_cases()
    pairs = [{'x': x, 'y': y} for x, y in itertools.product(ops, repeat=2)]
    if tier == 'quick':
        pairs = [p for i, p in enumerate(pairs) if (p['x']['cls'], p['y']['cls']) in (('row', 'diag'), ('diag', 'diag'), ('diag', 'col'), ('row', 'col'))
                 and (i % 3 == 0 or p['x']['cont'] == p['y']['cont'])]
    return [
        {'name': 'operators', 'target': TARGET, 'x64': False, 'cases': ops, 'chunk': 4},
        {'name': 'mismatch', 'target': TARGET, 'x64': False, 'cases': mismatch_cases(), 'chunk': 40},
        {'name': 'products', 'target': TARGET, 'x64': False, 'cases': pairs, 'chunk': max(40, len(pairs) // 200)},
    ]


# ------------------------------------------------------------------------------------------ worker
_E = {}


def env():
    if _E:
        return _E
    import jax
    import jax.numpy as jnp

    from furax._base.blocks import BlockColumnOperator, BlockRowOperator
    from furax._base.core import HomothetyOperator, IdentityOperator
    from furax._base.dense import DenseBlockDiagonalOperator
    from furax._base.diagonal import DiagonalOperator
    from furax.landscapes import StokesPyTree
    from furax.operators.hwp import HWPOperator
    from furax.operators.qu_rotations import QURotationOperator

    f32 = jnp.float32
    a, b = jax.ShapeDtypeStruct((2,), f32), jax.ShapeDtypeStruct((3,), f32)
    s = StokesPyTree.class_for('QU').structure_for((2,), f32)

    def dn(m, st=a):
        return DenseBlockDiagonalOperator(jnp.asarray(m, f32), st, 'ij,j->i')

    P, Q = dn([[1, 2], [3, 5]]), dn([[0, 1], [-1, 2]])
    R = QURotationOperator(jnp.asarray([0.3, -1.1], f32), s)
    blocks = {
        'P': P, 'Q': Q, 'D': DiagonalOperator(jnp.asarray([2.0, 4.0], f32), in_structure=a),
        'D2': DiagonalOperator(jnp.asarray([-1.0, 0.5], f32), in_structure=a), 'I': IdentityOperator(a),
        'K': HomothetyOperator(jnp.asarray(2.0, f32), a), 'G': dn([[1, 2], [3, 5], [-1, 4]]), 'G2': dn([[0, 1], [7, -2], [1, 1]]),
        'W': dn([[1, 0, 2], [-1, 3, 1]], b), 'R': R, 'Rt': R.T, 'Hs': HWPOperator(s),
        'It2': IdentityOperator([a, a]), 'Bk': BlockRowOperator([P, Q]), 'Ck': BlockColumnOperator([Q, P]),
    }
    a16 = jax.ShapeDtypeStruct((2,), jnp.float16)
    ac = jax.ShapeDtypeStruct((2,), jnp.complex64)
    blocks.update({
        'P16': DenseBlockDiagonalOperator(jnp.asarray([[1, 2], [3, 5]], jnp.float16), a16, 'ij,j->i'), 'I16': IdentityOperator(a16),
        'Pc': DenseBlockDiagonalOperator(jnp.asarray([[1, 2j], [3, 5]], jnp.complex64), ac, 'ij,j->i'),
        'G16': DenseBlockDiagonalOperator(jnp.asarray([[1, 2], [3, 5], [-1, 4]], jnp.float16), a16, 'ij,j->i'),
        'Pcr': DenseBlockDiagonalOperator(jnp.asarray([[1 + 2j, 3], [-1j, 2 - 1j]], jnp.complex64), a, 'ij,j->i'),
        'P16w': DenseBlockDiagonalOperator(jnp.asarray([[2049, 2], [3, 4097]], f32), a16, 'ij,j->i'),
    })
    _E.update(blocks=blocks, memo={})
    return _E


def container(cont, ops):
    if cont == 'list1':
        return [ops[0]]
    if cont == 'list2':
        return [ops[0], ops[1]]
    if cont == 'tuple3':
        return (ops[0], ops[1], ops[2])
    if cont == 'dict2':
        return {'y': ops[1], 'x': ops[0]}          # keys given unsorted: leaf order is x, y
    if cont == 'dictnested3':
        return {'v': ops[2], 'u': (ops[0], ops[1])}  # leaf order: u[0], u[1], v
    if cont == 'nested2':
        return [[ops[0], ops[1]]]
    if cont == 'bare1':
        return ops[0]
    if cont == 'list6':
        return list(ops[:6])
    if cont == 'dict7':   # keys inserted in reverse order; leaf order is the sorted key order k0..k6
        return {f'k{i}': ops[i] for i in reversed(range(7))}
    raise KeyError(cont)


def leaf_order(cont, names):
    return list(names[: arity(cont)])  # the containers above are written so that leaf order == argument order


def cls_of(name):
    from furax._base.blocks import BlockColumnOperator, BlockDiagonalOperator, BlockRowOperator

    return {'row': BlockRowOperator, 'diag': BlockDiagonalOperator, 'col': BlockColumnOperator}[name]


def build(case):
    E = env()
    k = json.dumps(case)
    if k not in E['memo']:
        ops = [E['blocks'][n] for n in case['blocks']]
        E['memo'][k] = cls_of(case['cls'])(container(case['cont'], ops))
    return E['memo'][k]


def block_matrix(cls, mats):
    import numpy as np
    import scipy.linalg

    if cls == 'row':
        return np.hstack(mats)
    if cls == 'col':
        return np.vstack(mats)
    return scipy.linalg.block_diag(*mats)


def check_operator(case, violations):
    import jax
    import numpy as np

    from furax._base.core import AbstractLinearOperator, InverseOperator
    from mc import probe as P

    E = env()
    try:
        op = P.lib('constructor', build, case)
    except P.LibError as e:
        violations.append({'kind': 'construction-raises', 'case': case, 'detail': f'{e}\n{e.tb}'})
        return
    names = leaf_order(case['cont'], case['blocks'])
    mats = [P.probe(E['blocks'][n]).M for n in names]
    ref = block_matrix(case['cls'], mats)
    tol = 1e-4 if any(n in ('R', 'Rt') for n in names) else 1e-6
    try:
        M = P.probe(op, cache=False).M
        if M.shape != ref.shape or not P.close(M, ref, tol):
            violations.append({'kind': 'not-the-block-matrix', 'case': case, 'detail': f'acts as {P.mat_summary(M, 60)} instead of {P.mat_summary(ref, 60)}'})
            return
        A = np.asarray(P.lib('as_matrix', op.as_matrix))
        A = A.astype(np.complex128 if np.iscomplexobj(A) else np.float64)
        if A.shape != ref.shape or not P.close(A, ref, tol):
            violations.append({'kind': 'as_matrix', 'case': case, 'detail': f'as_matrix() = {P.mat_summary(A, 60)} instead of {P.mat_summary(ref, 60)}'})
        # transpose: class, container, matrix
        T = P.lib('transpose', lambda: op.T)
        want_cls = cls_of({'row': 'col', 'col': 'row', 'diag': 'diag'}[case['cls']])
        is_op = lambda x: isinstance(x, AbstractLinearOperator)  # noqa: E731
        if type(T) is not want_cls:
            violations.append({'kind': 'transpose-class', 'case': case, 'detail': f'transpose is a {type(T).__name__}'})
        elif jax.tree.structure(T.blocks, is_leaf=is_op) != jax.tree.structure(op.blocks, is_leaf=is_op):
            violations.append({'kind': 'transpose-container', 'case': case, 'detail': 'the transposed operator uses a different container'})
        MT = P.probe(T, cache=False).M
        if MT.shape != ref.T.shape or not P.close(MT, ref.T, tol):
            violations.append({'kind': 'transpose-matrix', 'case': case, 'detail': f'max diff {P.maxdiff(MT, ref.T):.4g}'})
        # inverse of block diagonal
        if case['cls'] == 'diag':
            closed = all(n in ('D', 'D2', 'I', 'K', 'R', 'Rt', 'It2') for n in names)
            square_blocks = all(BLOCKS[n][0] == BLOCKS[n][1] for n in names)
            try:
                with P.quiet():
                    inv = op.I
                raised = None
            except ValueError as e:
                raised = e
            if square_blocks and raised is not None:
                violations.append({'kind': 'inverse-refused', 'case': case, 'detail': str(raised)})
            elif not square_blocks:
                if raised is None and not isinstance(inv, InverseOperator):
                    violations.append({'kind': 'inverse-of-nonsquare-blocks', 'case': case, 'detail': f'block-wise inverse taken although a block is not square: {type(inv).__name__}'})
            elif closed:
                if isinstance(inv, InverseOperator):
                    violations.append({'kind': 'inverse-not-blockwise', 'case': case, 'detail': 'lazy inverse of the whole operator instead of the block-wise inverse'})
                else:
                    Mi = P.probe(inv, cache=False).M
                    if not P.close(Mi @ ref, np.eye(ref.shape[0]), 1e-4) or not P.close(ref @ Mi, np.eye(ref.shape[0]), 1e-4):
                        violations.append({'kind': 'inverse-wrong', 'case': case, 'detail': f'A.I A = {P.mat_summary(Mi @ ref, 60)}'})
        # history: a functional update (equinox.tree_at) that swaps one block for another of the same spaces yields an operator
        # that is the block matrix of ITS blocks (application, dense form, declared structures), and leaves the original alone
        import equinox as eqx

        for k in sorted({0, len(names) - 1}):
            alt = next((n for n in BLOCKS if n != names[k] and BLOCKS[n] == BLOCKS[names[k]] and n in E['blocks']), None)
            if alt is None:
                continue
            try:
                op2 = eqx.tree_at(lambda o, k=k: jax.tree.leaves(o.blocks, is_leaf=is_op)[k], op, E['blocks'][alt])
            except Exception:  # noqa: BLE001 - equinox cannot address a block without array leaves this way: not the library's business
                continue
            mats2 = list(mats)
            mats2[k] = P.probe(E['blocks'][alt]).M
            ref2 = block_matrix(case['cls'], mats2)
            tol2 = 1e-4 if alt in ('R', 'Rt') else tol
            M2 = P.probe(op2, cache=False).M
            if M2.shape != ref2.shape or not P.close(M2, ref2, tol2):
                violations.append({'kind': 'block-replaced-application', 'case': dict(case, replaced=[k, alt]), 'detail': f'after tree_at the operator acts as {P.mat_summary(M2, 60)} instead of {P.mat_summary(ref2, 60)}'})
            A2 = np.asarray(P.lib('as_matrix after tree_at', op2.as_matrix))
            A2 = A2.astype(np.complex128 if np.iscomplexobj(A2) else np.float64)
            if A2.shape != ref2.shape or not P.close(A2, ref2, tol2):
                violations.append({'kind': 'block-replaced-as_matrix', 'case': dict(case, replaced=[k, alt]), 'detail': f'after tree_at as_matrix() = {P.mat_summary(A2, 60)} instead of {P.mat_summary(ref2, 60)}'})
            if P.ssize(op2.in_structure()) != ref2.shape[1] or P.ssize(op2.out_structure()) != ref2.shape[0]:
                violations.append({'kind': 'block-replaced-structure', 'case': dict(case, replaced=[k, alt]), 'detail': f'{op2.in_structure()} -> {op2.out_structure()} for a {ref2.shape} block matrix'})
            M0 = P.probe(op, cache=False).M
            if not P.close(M0, ref, tol):
                violations.append({'kind': 'original-changed-by-update', 'case': dict(case, replaced=[k, alt]), 'detail': f'the original acts as {P.mat_summary(M0, 60)} after the update'})
    except P.LibError as e:
        violations.append({'kind': 'library-raises', 'case': case, 'detail': f'{e}\n{e.tb}'})


def check_mismatch(case, violations, counters):
    from mc import probe as P

    E = env()
    x, y = (E['blocks'][n] for n in case['blocks'])
    shared_equal = (BLOCKS[case['blocks'][0]][1] == BLOCKS[case['blocks'][1]][1]) if case['mismatch'] == 'row' else (BLOCKS[case['blocks'][0]][0] == BLOCKS[case['blocks'][1]][0])
    try:
        with P.quiet():
            cls_of(case['mismatch'])([x, y])
        raised = False
    except (ValueError, TypeError):
        raised = True
    counters['mismatching' if not shared_equal else 'matching'] += 1
    if not shared_equal and not raised:
        violations.append({'kind': 'mismatch-accepted', 'case': case, 'detail': 'blocks with different shared structures are accepted'})
    if shared_equal and raised:
        violations.append({'kind': 'match-refused', 'case': case, 'detail': 'blocks with equal shared structures are refused'})


def check_product(case, violations, counters):
    import jax

    from furax._base.core import AbstractLinearOperator, AdditionOperator
    from mc import probe as P
    from mc import xstate
    from mc.pool import CaseTimeout

    try:
        X, Y = build(case['x']), build(case['y'])
    except Exception:  # noqa: BLE001 - construction problems are reported by the 'operators' phase
        return False
    if not P.same_struct(X.in_structure(), Y.out_structure()):
        return False
    counters['typed_products'] += 1
    tol = 1e-4
    try:
        ref = P.probe(X).M @ P.probe(Y).M
        with xstate.Timeout(60), P.quiet():
            red = (X @ Y).reduce()
        M = P.probe(red, cache=False).M
    except CaseTimeout:
        violations.append({'kind': 'nontermination', 'case': case, 'detail': 'reduce() did not return'})
        return True
    except P.LibError as e:
        violations.append({'kind': 'product-raises', 'case': case, 'detail': f'{e}\n{e.tb}'})
        return True
    except BaseException as e:  # noqa: BLE001
        err = P.LibError('(X @ Y).reduce()', e)
        violations.append({'kind': 'product-reduce-raises', 'case': case, 'detail': f'{err}\n{err.tb}'})
        return True
    if M.shape != ref.shape or not P.close(M, ref, tol):
        violations.append({'kind': 'product-wrong', 'case': case, 'detail': f'reduced product acts as {P.mat_summary(M, 48)} instead of {P.mat_summary(ref, 48)}'})
        return True
    is_op = lambda x: isinstance(x, AbstractLinearOperator)  # noqa: E731
    same = jax.tree.structure(X.blocks, is_leaf=is_op) == jax.tree.structure(Y.blocks, is_leaf=is_op)
    kinds = (case['x']['cls'], case['y']['cls'])
    expect = {('row', 'diag'): 'row', ('diag', 'diag'): 'diag', ('diag', 'col'): 'col', ('row', 'col'): 'sum'}.get(kinds)
    if same and expect:
        counters['same_layout_products'] += 1
        from furax._base.core import CompositionOperator, IdentityOperator

        if expect == 'sum':
            ok = not (isinstance(red, CompositionOperator) and any(isinstance(o, type(X)) or isinstance(o, type(Y)) for o in red.operands))
        else:
            ok = type(red) is cls_of(expect) or (expect == 'diag' and isinstance(red, IdentityOperator))
        if not ok:
            violations.append({'kind': 'product-not-simplified', 'case': case, 'detail': f'{kinds} with identical containers reduces to {type(red).__name__}'})
    return True


def run(phase, cases, ctx):
    violations = []
    counters = collections.Counter()
    nontrivial = set()
    samples = []
    for case in cases:
        if phase == 'operators':
            check_operator(case, violations)
            nontrivial.add(json.dumps(case))
        elif phase == 'mismatch':
            check_mismatch(case, violations, counters)
            nontrivial.add(json.dumps(case))
        else:
            if check_product(case, violations, counters):
                nontrivial.add(json.dumps(case))
                if len(samples) < 1:
                    samples.append(case)
    if phase == 'operators':
        samples = cases[:2]
    return {'n': len(cases), 'violations': violations, 'counters': counters, 'nontrivial': nontrivial, 'samples': samples}


def finalize(results, tier, seed):
    counters = collections.Counter()
    nontrivial = 0
    samples = []
    n = 0
    for r in results.values():
        counters.update(r['counters'])
        nontrivial += len(r['nontrivial'])
        samples += r['samples'][:2]
        n += r['n']
    cov = {'evaluations': n, 'distinct_nontrivial': nontrivial, 'samples': samples[:6], 'exhaustive': True,
           'block_operators': results['operators']['n'], 'typed_products': counters['typed_products'],
           'same_layout_products': counters['same_layout_products'], 'mismatching_pairs': counters['mismatching'],
           'rule': 'operators: class x container x block tuple; mismatch: all ordered block pairs for row/column constructors; products: ordered '
                   'pairs of block operators (non-trivial = the pair type-checks and was reduced and compared)'}
    return {'coverage': cov, 'violations': [], 'assumptions': ['block matrices are basis probes of the blocks (linearity, C04)']}
