"""C04 - application is linear and as_matrix() is its faithful dense form.

For every specimen and depth-<=2 composite of the universe:
  * op.as_matrix() (every specialised override) equals the basis probe (shape and values);
  * for the specimens themselves the GENERIC AbstractLinearOperator.as_matrix(op) equals it too;
  * linearity grid: op(a e_i + b e_j) == a P[:,i] + b P[:,j] for the zero vector, all basis pairs (specimens) or all
    neighbouring pairs incl. i = j (composites) and (a,b) in {(1,1),(2,-1),(1/2,3),(0,1),(-1,-1),(0,0)} - complete for
    affine offsets, sign-dependent terms and quadratic cross terms;
  * transformations other than jit (every specimen; a fixed quarter of the composites in the quick tier, all in the thorough tier):
    jax.vmap(op.mv) over the batch (a, b, a), jax.jvp(op.mv) at a along b (primal M a, tangent M b), and two applications inside
    lax.scan with the operator's arrays carried as loop state - each must agree with the probed matrix whenever JAX accepts it.
"""
from __future__ import annotations

PROPERTY = 'C04'
LEVEL = 'exploration'
TARGET = 'checks.c04:run'
COEFS = [(1, 1), (2, -1), (0.5, 3), (0, 1), (-1, -1), (0, 0)]


def plan(tier, seed):
    from mc import universe as U

    ph = [{'name': 'x32', 'target': TARGET, 'x64': False, 'cases': U.cases(tier, ('f32',), modulus=16)}]
    c64 = U.cases(tier, ('f64',), modulus=16)
    ph.append({'name': 'x64', 'target': TARGET, 'x64': True, 'chunk': 2,
               'cases': c64 if tier == 'thorough' else [c for c in c64 if 'b' not in c]})
    return ph


def oracle(desc, op, exact, all_transforms=True):
    import json
    import zlib

    import numpy as np

    from furax._base.core import AbstractLinearOperator
    from mc import probe as P

    probs = []
    p = P.probe(op, cache=False)
    M = p.M
    dts = P.op_dtypes(op)
    tol = 0.0 if exact else P.tol_for(*dts)
    inexact_solver = 'lazy_inv' in desc['a'] or 'lazy_inv' in str(desc.get('b'))
    if inexact_solver:
        tol = 1e-3
    # --- as_matrix (specialised or inherited, whatever the class provides)
    A = np.asarray(P.lib('as_matrix', op.as_matrix))
    A = A.astype(np.complex128 if np.iscomplexobj(A) else np.float64)
    if A.shape != M.shape:
        probs.append(('as_matrix-shape', f'as_matrix() has shape {A.shape}, the probed map {M.shape}'))
    elif not P.close(A, M, tol or 1e-12):
        probs.append(('as_matrix-values', f'max |as_matrix - probe| = {P.maxdiff(A, M):.4g}; as_matrix={P.mat_summary(A, 48)} probe={P.mat_summary(M, 48)}'))
    single = desc['form'] == 'single'
    if single and type(op).as_matrix is not AbstractLinearOperator.as_matrix:
        G = np.asarray(P.lib('generic as_matrix', AbstractLinearOperator.as_matrix, op))
        G = G.astype(np.complex128 if np.iscomplexobj(G) else np.float64)
        if G.shape != M.shape or not P.close(G, M, tol or 1e-12):
            probs.append(('generic-as_matrix', f'generic as_matrix differs from the probe by {P.maxdiff(G, M):.4g}'))
    # --- linearity grid
    in_struct = op.in_structure()
    n = M.shape[1]
    z = P.flat(P.lib('mv', op.mv, P.unflat(np.zeros(n), in_struct)))
    if not P.close(z, np.zeros(M.shape[0]), 1e-12 if not inexact_solver else 1e-6):
        probs.append(('affine-offset', f'op(0) = {z[:8]}'))
    from mc import universe as U_

    if single and desc['a'] not in U_.SINGLE_ONLY:
        pairs = [(i, j) for i in range(n) for j in range(i, n)] if n <= 12 else [(i, (i + 1) % n) for i in range(n)] + [(i, i) for i in range(n)]
        coefs = COEFS
    else:  # composites of linear parts: a thin grid suffices to see a non-linear combination step
        pairs = [(i, (i + 1) % n) for i in range(n)]
        coefs = [(2, -1), (0.5, 3)]
    ltol = max(tol, 1e-6 if any(np.dtype(d) == np.float32 for d in dts) else 1e-12)
    bad = 0
    for i, j in pairs:
        for a, b in coefs:
            v = np.zeros(n)
            v[i] += a
            v[j] += b
            y = P.flat(P.lib('mv', op.mv, P.unflat(v, in_struct)))
            want = a * M[:, i] + b * M[:, j]
            if not P.close(y, want, ltol):
                bad += 1
                if bad <= 2:
                    probs.append(('nonlinear', f'op({a} e{i} + {b} e{j}) = {y[:8]} but {a} op(e{i}) + {b} op(e{j}) = {want[:8]}'))
    # --- the result depends on the input VALUES only, and applying the operator leaves its input alone: leaves of equal shape
    # and dtype are one and the same array object; the same input object is applied twice; JAX arrays, then NumPy arrays
    import jax
    import jax.numpy as jnp

    leaves, treedef = jax.tree.flatten(in_struct)
    for kind in ('jax', 'numpy'):
        pool = {}
        arrs = []
        for l in leaves:
            k = (tuple(l.shape), str(l.dtype))
            if k not in pool:
                base = (np.arange(int(np.prod(l.shape)) or 1)[: int(np.prod(l.shape))] % 7 + 1.0).reshape(l.shape)
                pool[k] = jnp.asarray(base, l.dtype) if kind == 'jax' else np.asarray(base).astype(l.dtype)
            arrs.append(pool[k])
        x = jax.tree.unflatten(treedef, arrs)
        saved = [np.array(a, copy=True) for a in arrs]
        want = M @ P.flat(x)
        try:
            y1 = P.flat(P.lib('mv', op.mv, x))
            y2 = P.flat(P.lib('second mv on the same input object', op.mv, x))
            after = [np.asarray(a) for a in arrs]
        except P.LibError as e:
            if kind == 'numpy':   # NumPy leaves are not promised to be accepted everywhere: only wrong answers count
                continue
            probs.append(('repeated-application-raises', f'{e}'))
            continue
        rtol = max(ltol, 1e-3 if inexact_solver else 0)
        if not P.close(y1, want, rtol) or not P.close(y2, want, rtol):
            probs.append(('depends-on-more-than-the-input-values', f'{kind} leaves, equal leaves being one array object: first application {y1[:6]}, second {y2[:6]}, matrix times input {want[:6]}'))
        if any(not np.array_equal(a, b, equal_nan=True) for a, b in zip(after, saved)):
            probs.append(('input-modified', f'{kind} leaves: the input arrays differ after the operator was applied'))
    # --- application under JAX transformations other than jit: a batch of inputs under vmap, the tangent map under jvp (a linear
    # map is its own derivative), two applications in a row inside lax.scan with the operator carried as an argument.  Whether a
    # transformation is supported is not promised: only a result that differs from the probed matrix counts.
    if n and M.shape[0] and (single or all_transforms or zlib.crc32(json.dumps(desc, sort_keys=True).encode()) % 4 == 0):
        rtol = max(ltol, 1e-3 if inexact_solver else 0)
        va = np.zeros(n); va[0] = 1; va[-1] += 2
        vb = (np.arange(n) % 5) - 2.0
        xa, xb = P.unflat(va, in_struct), P.unflat(vb, in_struct)
        wa, wb = M @ P.flat(xa), M @ P.flat(xb)
        try:
            X = jax.tree.map(lambda p_, q_: jnp.stack([p_, q_, p_]), xa, xb)
            Y = P.lib('vmap(mv)', jax.vmap(op.mv), X)
            rows = [P.flat(jax.tree.map(lambda l, k=k: l[k], Y)) for k in range(3)]
            if not (P.close(rows[0], wa, rtol) and P.close(rows[1], wb, rtol) and P.close(rows[2], wa, rtol)):
                probs.append(('vmap-differs', f'vmap(op.mv) over the batch (a, b, a): rows {rows[0][:6]} / {rows[1][:6]} / {rows[2][:6]}, matrix times inputs {wa[:6]} / {wb[:6]}'))
        except P.LibError:
            pass
        if not any(np.issubdtype(np.dtype(l.dtype), np.integer) or np.dtype(l.dtype) == np.bool_ for l in leaves):
            try:
                yp, yt = P.lib('jvp(mv)', jax.jvp, op.mv, (xa,), (xb,))
                if not (P.close(P.flat(yp), wa, rtol) and P.close(P.flat(yt), wb, rtol)):
                    probs.append(('jvp-differs', f'jvp of op.mv at a along b: primal {P.flat(yp)[:6]} tangent {P.flat(yt)[:6]}, matrix times a {wa[:6]}, matrix times b {wb[:6]}'))
            except P.LibError:
                pass
        if P.ssig(in_struct) != P.ssig(op.out_structure()):
            return probs, bool(np.any(M != 0))
        try:
            import equinox as eqx

            dyn, static = eqx.partition(op, eqx.is_array)

            def body(carry, _):
                o = eqx.combine(carry[0], static)
                return (carry[0], o.mv(carry[1])), None

            (_, y2), _ = P.lib('scan(mv)', jax.lax.scan, body, (dyn, xb), None, length=2)
            w2 = M @ (M @ P.flat(xb))
            if np.all(np.isfinite(w2)) and not P.close(P.flat(y2), w2, max(rtol, 1e-5)):
                probs.append(('scan-differs', f'two applications inside lax.scan (operator arrays carried): {P.flat(y2)[:6]}, matrix squared times input {w2[:6]}'))
        except P.LibError:
            pass
    return probs, bool(np.any(M != 0))


def run(phase, cases, ctx):
    from mc import unirun

    import functools

    return unirun.run(cases, functools.partial(oracle, all_transforms=ctx.get('tier') == 'thorough'))


def finalize(results, tier, seed):
    from mc import unirun

    cov = unirun.coverage(results, 'one case = a specimen or an ordered pair of specimens (all well-typed composite forms); '
                          'non-trivial = the probed matrix is non-zero')
    return {'coverage': cov, 'violations': [], 'assumptions': ['iterative lazy inverse compared within solver tolerance']}
