"""C02 - operator arithmetic is matrix arithmetic, whatever the grouping.

BEX over expression trees (pure data, typed symbolically by space labels so that the coordinator enumerates them):
  unary/scalar forms of every leaf x 10 scalar kinds (python/NumPy/JAX scalars, 0-d arrays, and non-scalar 'scalars');
  x o y for all ordered leaf pairs and o in {@, +, -} (well-typed or not);
  (x o y) o' z and x o (y o' z) for all leaves of a reduced alphabet and all 9 operator pairs; unary-on-binary and
  (k*x) o (l*y) forms.
Oracle: the same tree evaluated with numpy on the basis probes of the leaves; structures; the reduced form against the
same matrix.  Every structurally incompatible pairing must raise ValueError/TypeError - returning an operator (or any
other object, e.g. a NumPy object array) is the violation.
"""
from __future__ import annotations

import collections
import itertools
import json

PROPERTY = 'C02'
LEVEL = 'exploration'
TARGET = 'checks.c02:run'

# leaf -> (in space, out space)
LEAVES = {
    'P': ('a', 'a'), 'Q': ('a', 'a'), 'PQ': ('a', 'a'), 'PpQ': ('a', 'a'), 'I': ('a', 'a'), 'K': ('a', 'a'), 'Km': ('a', 'a'),
    'D': ('a', 'a'), 'Di': ('a', 'a'), 'S': ('a', 'a'), 'Si': ('a', 'a'), 'SPQ': ('a', 'a'), 'DPQ': ('a', 'a'), 'Ii': ('ai', 'ai'), 'Di32': ('ai', 'ai'),
    'G': ('a', 'b'), 'W': ('b', 'a'), 'Ib': ('b', 'b'), 'Kb': ('b', 'b'),
    'R': ('s', 's'), 'Rt': ('s', 's'), 'H': ('s', 's'), 'Is': ('s', 's'),
    'It': ('t', 't'), 'Kt': ('t', 't'), 'Dt': ('t', 't'),
    # same leaves, different containers: (a, a) versus {'a': a, 'b': a} - only the tree structure distinguishes them
    'Itp': ('tp', 'tp'), 'Ktp': ('tp', 'tp'), 'Btp': ('tp', 'tp'), 'Ctp': ('a', 'tp'), 'Rtp': ('tp', 'a'),
    'Idc': ('dc', 'dc'), 'Kdc': ('dc', 'dc'), 'Bdc': ('dc', 'dc'), 'Cdc': ('a', 'dc'), 'Rdc': ('dc', 'a'),
}
CORE = ['P', 'Q', 'PQ', 'PpQ', 'I', 'K', 'D', 'Di', 'Si', 'G', 'W', 'SPQ', 'DPQ']
CORE_THOROUGH = CORE + ['Km', 'S', 'Ib', 'Kb', 'Btp', 'Bdc', 'Ctp', 'Rdc']
SCALARS = ['int3', 'float.5', 'neg2', 'npf32', 'np0d', 'jnpf32', 'jnp0d', 'pyc', 'npc64', 'jnpc64', 'jnp1d', 'np1d', 'list']
SCALAR_OK = {'int3': 3.0, 'float.5': 0.5, 'neg2': -2.0, 'npf32': 1.5, 'np0d': 2.0, 'jnpf32': 0.25, 'jnp0d': 4.0,
             'pyc': 2 + 1j, 'npc64': 0.5 + 2j, 'jnpc64': 1 - 1j}
BIN = ['@', '+', '-']
SINGULAR = {'Dz': ('a', 'a'), 'Dzi': ('a', 'a')}


class Mismatch(Exception):
    pass


def typ(e, table=None):
    """(in, out) space labels, raises Mismatch if the expression is structurally ill-typed (must be rejected)."""
    table = table or {**LEAVES, **SINGULAR}
    k = e[0]
    if k == 'leaf':
        return table[e[1]]
    if k in ('neg', 'pos'):
        return typ(e[1])
    if k == 'inv':
        t = typ(e[1])
        if t[0] != t[1]:
            raise Mismatch('inverse of a non-square operator')
        return t
    if k in ('k*', '*k', '/k'):
        t = typ(e[2])
        if e[1] not in SCALAR_OK:
            raise Mismatch(f'non-scalar {e[1]}')
        return t
    if k == '@':
        t1, t2 = typ(e[1]), typ(e[2])
        if t1[0] != t2[1]:
            raise Mismatch('@')
        return (t2[0], t1[1])
    if k in ('+', '-'):
        t1, t2 = typ(e[1]), typ(e[2])
        if t1 != t2:
            raise Mismatch(k)
        return t1
    raise KeyError(k)


def plan(tier, seed):
    L = lambda n: ['leaf', n]  # noqa: E731
    trees = []
    names = list(LEAVES)
    for n in names:
        trees += [['neg', L(n)], ['pos', L(n)]]
        for s in SCALARS:
            trees += [['k*', s, L(n)], ['*k', s, L(n)], ['/k', s, L(n)]]
    for x, y in itertools.product(names, repeat=2):
        for o in BIN:
            trees.append([o, L(x), L(y)])
    core = CORE if tier == 'quick' else CORE_THOROUGH
    for x, y, z in itertools.product(core, repeat=3):
        for o1, o2 in itertools.product(BIN, repeat=2):
            trees.append([o2, [o1, L(x), L(y)], L(z)])
            trees.append([o1, L(x), [o2, L(y), L(z)]])
    for x, y in itertools.product(core, repeat=2):
        for o in BIN:
            inner = [o, L(x), L(y)]
            trees += [['neg', inner], ['k*', 'int3', inner], ['*k', 'float.5', inner], ['/k', 'jnp0d', inner],
                      [o, ['k*', 'neg2', L(x)], ['k*', 'npf32', L(y)]], [o, ['neg', L(x)], ['/k', 'np0d', L(y)]]]
    # sign changes of expressions that already carry two or three scalar factors (an even number must not cancel the sign)
    for x, y in itertools.product(core, repeat=2):
        for o in BIN:
            two = [o, ['k*', 'neg2', L(x)], ['k*', 'npf32', L(y)]]
            trees += [['neg', two], ['neg', ['k*', 'int3', two]], ['-', L(x), two], ['neg', ['neg', two]]]
    for x in core:
        trees += [['neg', ['k*', 'int3', ['k*', 'float.5', L(x)]]], ['neg', ['/k', 'np0d', ['neg', L(x)]]], ['neg', ['neg', ['k*', 'int3', L(x)]]],
                  ['neg', ['*k', 'jnp0d', ['/k', 'neg2', ['k*', 'npf32', L(x)]]]]]
    small = ['P', 'Q', 'D', 'K']
    for x, y, z, w in itertools.product(small, repeat=4):
        for o, o1, o2 in itertools.product(BIN, repeat=3):
            trees.append([o, [o1, L(x), L(y)], [o2, L(z), L(w)]])   # both operands already composite (sum + sum, product - sum, ...)
    for n in (5, 6, 7, 9):   # long left- and right-associated sums and products
        seq = [L(['P', 'Q', 'D', 'K', 'PpQ', 'Di', 'I', 'Km', 'S'][i % 9]) for i in range(n)]
        for o in ('+', '@', '-'):
            left = seq[0]
            for e in seq[1:]:
                left = [o, left, e]
            right = seq[-1]
            for e in reversed(seq[:-1]):
                right = [o, e, right]
            trees += [left, right]
    # lazy inverses of composite (temporary) symmetric positive-definite operands inside larger expressions
    spd = [['+', L('S'), L('D')], ['+', L('S'), L('S')], ['@', L('S'), L('S')], ['+', L('D'), ['@', L('S'), L('S')]], ['k*', 'int3', L('S')]]
    others = [L(n) for n in ('P', 'Q', 'PpQ', 'I', 'K', 'D', 'Di', 'S', 'Si', 'SPQ')] + [[o, L(x), L(y)] for o in BIN for x, y in (('P', 'Q'), ('S', 'D'), ('S', 'S'), ('D', 'K'))]
    for x in spd:
        ix = ['inv', x]
        trees += [ix, ['inv', ix], ['neg', ix], ['k*', 'float.5', ix]]
        for y in others + spd:
            trees += [['@', ix, y], ['@', y, ix], ['+', ix, y], ['-', y, ix]]
        for x2 in spd:
            trees += [['@', ix, ['inv', x2]], ['+', ['inv', x2], ix]]
    trees += [['inv', L(n)] for n in ('G', 'W', 'Ctp', 'Rdc')]    # not square: refused
    stokes_core = ['R', 'Rt', 'H', 'Is']
    for x, y, z in itertools.product(stokes_core, repeat=3):
        for o1, o2 in itertools.product(BIN, repeat=2):
            trees.append([o2, [o1, L(x), L(y)], L(z)])
            trees.append([o1, L(x), [o2, L(y), L(z)]])
    sing = []
    sl = ['Dz', 'Dzi', 'P', 'D', 'K', 'I']
    for x, y in itertools.product(sl, repeat=2):
        sing.append(['@', L(x), L(y)])
    for x, y, z in itertools.product(sl, repeat=3):
        sing.append(['@', ['@', L(x), L(y)], L(z)])
        sing.append(['@', L(x), ['@', L(y), L(z)]])
    sing = [t for t in sing if 'Dz' in json.dumps(t)]
    return [
        {'name': 'trees', 'target': TARGET, 'x64': False, 'cases': trees, 'chunk': max(50, len(trees) // 320)},
        {'name': 'singular', 'target': TARGET, 'x64': False, 'cases': sing, 'chunk': 20},
    ]


# ------------------------------------------------------------------------------------------ worker
_E = {}


def env():
    if _E:
        return _E
    import jax
    import jax.numpy as jnp
    import numpy as np

    from furax._base.core import HomothetyOperator, IdentityOperator
    from furax._base.dense import DenseBlockDiagonalOperator
    from furax._base.diagonal import DiagonalOperator
    from furax.landscapes import StokesPyTree
    from furax.operators.hwp import HWPOperator
    from furax.operators.qu_rotations import QURotationOperator
    from mc import probe as P

    f32 = jnp.float32
    a, b = jax.ShapeDtypeStruct((2,), f32), jax.ShapeDtypeStruct((3,), f32)
    s = StokesPyTree.class_for('IQU').structure_for((2,), f32)
    t = {'u': a, 'v': jax.ShapeDtypeStruct((2, 3), f32)}

    def dn(m, st=a):
        return DenseBlockDiagonalOperator(jnp.asarray(m, f32), st, 'ij,j->i')

    def hom(v, st):
        return HomothetyOperator(jnp.asarray(v, f32), st)

    Pm, Qm = dn([[1, 2], [3, 5]]), dn([[0, 1], [-1, 2]])
    D = DiagonalOperator(jnp.asarray([2.0, 4.0], f32), in_structure=a)
    Dz = DiagonalOperator(jnp.asarray([2.0, 0.0], f32), in_structure=a)
    S = dn([[2, 1], [1, 3]])
    R = QURotationOperator(jnp.asarray([0.3, -1.1], f32), s)
    leaves = {
        'P': Pm, 'Q': Qm, 'PQ': Pm @ Qm, 'PpQ': Pm + Qm, 'I': IdentityOperator(a), 'K': hom(2.0, a), 'Km': hom(-0.5, a),
        'D': D, 'Di': D.I, 'S': S, 'Si': S.I, 'G': dn([[1, 2], [3, 5], [-1, 4]]), 'W': dn([[1, 0, 2], [-1, 3, 1]], b),
        'Ib': IdentityOperator(b), 'Kb': hom(3.0, b), 'R': R, 'Rt': R.T, 'H': HWPOperator(s), 'Is': IdentityOperator(s),
        'It': IdentityOperator(t), 'Kt': hom(-2.0, t), 'Dt': DiagonalOperator(jnp.asarray([2.0, -4.0], f32), axis_destination=0, in_structure=t),
        'Dz': Dz, 'Dzi': Dz.I,
    }
    ai = jax.ShapeDtypeStruct((2,), jnp.int32)
    leaves['SPQ'] = S @ Pm @ Qm     # three operands whose head is the very object Si inverts
    leaves['DPQ'] = D @ Pm @ Qm
    leaves['Ii'] = IdentityOperator(ai)   # integer-valued data: a fractional factor must not be truncated
    leaves['Di32'] = DiagonalOperator(jnp.asarray([2, -3], jnp.int32), in_structure=ai)
    from furax._base.blocks import BlockColumnOperator, BlockDiagonalOperator, BlockRowOperator

    tp, dc = (a, a), {'a': a, 'b': a}
    leaves.update({
        'Itp': IdentityOperator(tp), 'Ktp': hom(3.0, tp), 'Btp': BlockDiagonalOperator((Pm, Qm)), 'Ctp': BlockColumnOperator((Qm, Pm)), 'Rtp': BlockRowOperator((Pm, Qm)),
        'Idc': IdentityOperator(dc), 'Kdc': hom(-2.0, dc), 'Bdc': BlockDiagonalOperator({'a': Qm, 'b': Pm}), 'Cdc': BlockColumnOperator({'a': Pm, 'b': Qm}),
        'Rdc': BlockRowOperator({'a': Qm, 'b': Pm}),
    })
    mats = {n: P.probe(op, cache=False).M for n, op in leaves.items()}
    scal = {
        'int3': 3, 'float.5': 0.5, 'neg2': -2.0, 'npf32': np.float32(1.5), 'np0d': np.array(2.0, np.float32),
        'jnpf32': jnp.float32(0.25), 'jnp0d': jnp.asarray(4.0, f32), 'pyc': 2 + 1j, 'npc64': np.complex64(0.5 + 2j), 'jnpc64': jnp.asarray(1 - 1j, jnp.complex64), 'jnp1d': jnp.asarray([2.0, 3.0], f32),
        'np1d': np.array([2.0, 3.0], np.float32), 'list': [2.0, 3.0],
    }
    _E.update(leaves=leaves, mats=mats, scal=scal, arity={n: len(leaves[n].operands) for n in ('PQ', 'PpQ', 'SPQ', 'DPQ')})
    return _E


def build(e):
    E = env()
    k = e[0]
    if k == 'leaf':
        return E['leaves'][e[1]]
    if k == 'neg':
        return -build(e[1])
    if k == 'pos':
        return +build(e[1])
    if k == 'inv':
        return build(e[1]).I     # the operand is a temporary: nothing keeps it alive afterwards
    if k == 'k*':
        return E['scal'][e[1]] * build(e[2])
    if k == '*k':
        return build(e[2]) * E['scal'][e[1]]
    if k == '/k':
        return build(e[2]) / E['scal'][e[1]]
    x, y = build(e[1]), build(e[2])
    if k == '@':
        return x @ y
    if k == '+':
        return x + y
    if k == '-':
        return x - y
    raise KeyError(k)


def ref(e):
    E = env()
    k = e[0]
    if k == 'leaf':
        return E['mats'][e[1]]
    if k == 'neg':
        return -ref(e[1])
    if k == 'pos':
        return ref(e[1])
    if k == 'inv':
        import numpy as np

        return np.linalg.inv(ref(e[1]))
    if k in ('k*', '*k'):
        return SCALAR_OK[e[1]] * ref(e[2])
    if k == '/k':
        return ref(e[2]) / SCALAR_OK[e[1]]
    if k == '@':
        return ref(e[1]) @ ref(e[2])
    if k == '+':
        return ref(e[1]) + ref(e[2])
    if k == '-':
        return ref(e[1]) - ref(e[2])
    raise KeyError(k)


def flatten_product(e):
    if e[0] == 'leaf':
        return [e[1]]
    assert e[0] == '@'
    return flatten_product(e[1]) + flatten_product(e[2])


def f9_reference(e):
    """Second reference semantics for the recorded defect: adjacent (Dzi, Dz) / (Dz, Dzi) leaves of a pure product
    cancel to the identity (what the construction shortcut and InverseBinaryRule do); everything else is exact."""
    import numpy as np

    E = env()
    chain = flatten_product(e)
    scale = 2.0 ** chain.count('K')        # scalar factors commute with everything; identities are absorbed
    chain = [n for n in chain if n not in ('I', 'K')]
    out = []
    for n in chain:
        if out and {out[-1], n} == {'Dz', 'Dzi'}:
            out.pop()
        else:
            out.append(n)
    M = scale * np.eye(2)
    for n in out:
        M = M @ E['mats'][n]
    return M


def run(phase, cases, ctx):
    import numpy as np

    from furax._base.core import AbstractLinearOperator
    from mc import probe as P
    from mc import xstate

    E = env()
    violations = []
    counters = collections.Counter()
    nontrivial = set()
    samples = []
    for case in cases:
        text = json.dumps(case)
        try:
            want_t = typ(case)
            valid = True
        except Mismatch:
            valid = False
        try:
            with P.quiet():
                op = build(case)
            raised = None
        except (ValueError, TypeError) as ex:
            raised = ex
        except Exception as ex:  # noqa: BLE001
            violations.append({'kind': 'unexpected-exception', 'case': case, 'detail': f'{type(ex).__name__}: {ex}'})
            continue
        if not valid:
            counters['incompatible'] += 1
            if raised is None:
                what = f'a {type(op).__name__}' if isinstance(op, AbstractLinearOperator) else f'{type(op).__name__} {str(op)[:80]!r}'
                violations.append({'kind': 'accepts-incompatible', 'case': case,
                                   'detail': f'structurally incompatible operands are not rejected: the expression evaluates to {what}'})
            else:
                counters['incompatible_rejected'] += 1
            continue
        counters['typed'] += 1
        if raised is not None:
            violations.append({'kind': 'rejects-valid', 'case': case, 'detail': f'{type(raised).__name__}: {raised}'})
            continue
        if not isinstance(op, AbstractLinearOperator):
            violations.append({'kind': 'not-an-operator', 'case': case, 'detail': f'the expression evaluates to {type(op).__name__}'})
            continue
        M = ref(case)
        tol = 1e-3 if ('Si' in text or '"inv"' in text) else (1e-4 if any(x in text for x in ('"R"', '"Rt"')) else 1e-5)
        singular = phase == 'singular'
        try:
            for label, o in (('built', op), ('reduced', None)):
                if o is None:
                    with xstate.Timeout(60), P.quiet():
                        o = op.reduce()
                got = P.probe(o, cache=False).M
                leaf_in = {**LEAVES, **SINGULAR}
                if got.shape != M.shape or not P.close(got, M, tol):
                    v = {'kind': f'{label}-wrong-matrix', 'case': case,
                         'detail': f'{label} expression denotes {P.mat_summary(got, 36)} but matrix arithmetic gives {P.mat_summary(M, 36)}'}
                    if singular:
                        f9 = f9_reference(case)
                        v['witness'] = {'singular_inverse_collapse': bool(got.shape == f9.shape and P.close(got, f9, 1e-5)),
                                        'other_unsound': not (got.shape == f9.shape and P.close(got, f9, 1e-5))}
                    violations.append(v)
                    break
        except P.LibError as ex:
            violations.append({'kind': 'apply-raises', 'case': case, 'detail': f'{ex}\n{ex.tb}'})
            continue
        # building a larger expression must leave its operands as they were: the composite leaves used by this tree still
        # denote what they denoted when the worker started (same operands, same structures, same matrix)
        for name in ('PQ', 'PpQ', 'SPQ', 'DPQ'):
            if f'"{name}"' in text and name not in E.get('reported', ()):
                leaf = E['leaves'][name]
                try:
                    now = P.probe(leaf, cache=False).M
                    same = now.shape == E['mats'][name].shape and P.close(now, E['mats'][name], 1e-6) and len(leaf.operands) == E['arity'][name]
                except P.LibError:
                    same = False
                if not same:
                    violations.append({'kind': 'operand-changed-by-building-an-expression', 'case': case,
                                       'detail': f'after this expression was built the composite operand {name} has {len(leaf.operands)} operands (had {E["arity"][name]}) and no longer denotes its matrix'})
                    E.setdefault('reported', set()).add(name)   # once per worker
                    break
        nontrivial.add(text)
        if len(samples) < 2 and len(text) > 60:
            samples.append(case)
    return {'n': len(cases), 'violations': violations, 'counters': counters, 'nontrivial': nontrivial, 'samples': samples}


def finalize(results, tier, seed):
    counters = collections.Counter()
    nontrivial = set()
    samples = []
    n = 0
    for r in results.values():
        counters.update(r['counters'])
        nontrivial |= r['nontrivial']
        samples += r['samples'][:2]
        n += r['n']
    cov = {
        'evaluations': n, 'distinct_nontrivial': len(nontrivial), 'samples': samples,
        'typed_trees': counters['typed'], 'incompatible_trees': counters['incompatible'], 'incompatible_rejected': counters['incompatible_rejected'],
        'rule': 'all trees of the stated shapes over the leaf/scalar alphabets; non-trivial = well-typed tree whose built and reduced forms were '
                'both compared with the numpy evaluation; incompatible trees are counted separately (must raise)',
        'exhaustive': True,
    }
    return {'coverage': cov, 'violations': [], 'assumptions': ['leaf matrices come from basis probes (linearity, C04)']}
