"""C16 - the acquisition operator equals the explicit pointing model.

nside in {1,2,4,8} x 4 Stokes kinds x detector layouts (1-3 detectors x 1-2 directions each, boresight and off-axis up
to 20 deg, unnormalised inputs) x the full (theta, phi, psi) grid 7 x 7 x 5 as ONE sampling (samples are independent),
plus a permuted and a single-sample sampling.  Reference (float64 numpy, independent): v = Rz(phi) Ry(theta) Rz(psi) d,
pixel = healpy.vec2pix(nside, v) (ring), (Q,U) rotated by 2 psi; acquisition = (I + Q cos 2psi - U sin 2psi)/2.
Samples whose direction lies within 1e-4 rad of a pixel border (8 perturbed look-ups) are removed from the sampling
BEFORE the operator is built, so float32 rounding can never raise an alarm.
Oracle: projection output per Stokes component on a sky whose values identify (pixel, component); full basis probe at
nside 1; acquisition output before and after reduce(); probe(P.T @ P) and probe((P.T @ P).reduce()) == diag(hit counts)
for nside <= 2.  Both 64-bit modes.
"""
from __future__ import annotations

import collections
import itertools
import json
import math

PROPERTY = 'C16'
LEVEL = 'exploration'
TARGET = 'checks.c16:run'
THETA = [0.05, 0.6, 1.1, math.pi / 2 + 0.013, 2.0, 2.7, math.pi - 0.05]
PHI = [-2.5, -0.4, 0.0 + 0.011, 1.0, 3.3, 5.9, 2 * math.pi + 0.7]
PSI = [0.0, 0.5, -1.2, 2.0, 4.0]
LAYOUTS = {
    'bore': ([[0.0]], [[0.0]]),
    'one_off': ([[0.12]], [[-0.2]]),
    'two': ([[0.0], [0.3]], [[0.05], [-0.25]]),
    'three': ([[0.1], [-0.3], [0.2]], [[0.0], [0.15], [0.36]]),
    'two_dirs': ([[0.0, 0.02], [0.3, 0.28]], [[0.05, 0.07], [-0.25, -0.22]]),
    'one_two_dirs': ([[0.1, -0.15]], [[0.2, 0.1]]),
    'spread6': ([[0.0], [1.4], [-1.3], [0.2], [-0.9], [1.1]], [[0.0], [0.3], [0.8], [-1.5], [-1.0], [1.2]]),
}


def plan(tier, seed):
    cases = []
    nsides = [1, 2, 4, 8]
    for nside, kind, lay in itertools.product(nsides, ['I', 'QU', 'IQU', 'IQUV'], LAYOUTS):
        if tier == 'quick' and (nsides.index(nside) + list(LAYOUTS).index(lay) + len(kind)) % 2:
            continue
        for samp in ('grid', 'perm', 'single', 'square'):
            if samp != 'grid' and (tier == 'quick' and lay not in ('two', 'two_dirs', 'spread6')):
                continue
            if samp == 'square' and lay in ('bore', 'one_off', 'one_two_dirs'):
                continue
            cases.append({'nside': nside, 'kind': kind, 'lay': lay, 'samp': samp})
    # psi many turns away from [0, 2 pi) (a continuously rotating instrument); 64-bit modes only: float32 cannot hold such
    # angles to better than 1e-3 rad, so nothing could be concluded there
    # timelines longer than 2**16 (detector, direction, sample) triples, and position angles that are all multiples of pi/2
    grid_cases = [c for c in cases if c['samp'] == 'grid']
    cases += [dict(c, samp='long') for c in grid_cases if c['lay'] in ('two', 'two_dirs', 'bore')][:: (2 if tier == 'thorough' else 5)]
    cases += [dict(c, samp='quarter') for c in grid_cases][:: (1 if tier == 'thorough' else 3)]
    big = [dict(c, samp='bigpsi') for c in cases if c['samp'] == 'grid'][:: (1 if tier == 'thorough' else 3)]
    c64 = (cases if tier == 'thorough' else cases[::2]) + big
    poles = [{'nside': n, 'kind': k, 'pole': p} for n in (1, 2, 4, 8) for k in ('I', 'IQU') for p in ('north', 'south')]
    return [
        {'name': 'poles', 'target': 'checks.c16:run_poles', 'x64': False, 'cases': poles, 'chunk': 4},
        {'name': 'poles_x64', 'target': 'checks.c16:run_poles', 'x64': True, 'cases': poles, 'chunk': 4},
        {'name': 'x32', 'target': TARGET, 'x64': False, 'cases': cases, 'chunk': 2},
        {'name': 'x64', 'target': TARGET, 'x64': True, 'cases': c64, 'chunk': 2},
        # 64-bit mode switched on after furax was imported (mc.pool.worker_init): same cases, same oracles
        {'name': 'x64late', 'target': TARGET, 'x64': 'late', 'cases': c64[1:: (2 if tier == 'thorough' else 3)], 'chunk': 2},
    ]


# ------------------------------------------------------------------------------------------ reference
def rot_zyz(phi, theta, psi):
    import numpy as np

    def Rz(a):
        return np.array([[math.cos(a), -math.sin(a), 0], [math.sin(a), math.cos(a), 0], [0, 0, 1.0]])

    def Ry(a):
        return np.array([[math.cos(a), 0, math.sin(a)], [0, 1.0, 0], [-math.sin(a), 0, math.cos(a)]])

    return Rz(phi) @ Ry(theta) @ Rz(psi)


def reference_pixels(nside, dirs, theta, phi, psi):
    """dirs: (ndet, ndir, 3) unit vectors.  Returns pix (ndet, ndir, nsamp) and safe (nsamp,) booleans."""
    import healpy as hp
    import numpy as np

    ndet, ndir, _ = dirs.shape
    ns = len(theta)
    pix = np.zeros((ndet, ndir, ns), dtype=np.int64)
    safe = np.ones(ns, dtype=bool)
    eps = 1e-4
    for t in range(ns):
        R = rot_zyz(phi[t], theta[t], psi[t])
        for d in range(ndet):
            for m in range(ndir):
                v = R @ dirs[d, m]
                p = hp.vec2pix(nside, *v)
                pix[d, m, t] = p
                # two tangent vectors
                a = np.cross(v, [0, 0, 1.0]) if abs(v[2]) < 0.9 else np.cross(v, [1.0, 0, 0])
                a /= np.linalg.norm(a)
                b = np.cross(v, a)
                for k in range(8):
                    w = v + eps * (math.cos(k * math.pi / 4) * a + math.sin(k * math.pi / 4) * b)
                    if hp.vec2pix(nside, *w) != p:
                        safe[t] = False
    return pix, safe


def run(phase, cases, ctx):
    import jax
    import jax.numpy as jnp
    import numpy as np

    from furax.detectors import DetectorArray
    from furax.instruments.sat import create_acquisition
    from furax.landscapes import HealpixLandscape, StokesPyTree
    from furax.projections import create_projection_operator
    from furax.samplings import Sampling
    from mc import probe as P
    from mc import xstate

    x64 = bool(jax.config.jax_enable_x64)
    D = jnp.float64 if x64 else jnp.float32
    tol = 1e-9 if x64 else 2e-4
    violations = []
    counters = collections.Counter()
    nontrivial = set()
    grid = list(itertools.product(THETA, PHI, PSI))
    for case in cases:
        nside, kind, lay = case['nside'], case['kind'], case['lay']
        xs, ys = (np.array(v, float) for v in LAYOUTS[lay])
        z = 2.0  # unnormalised: DetectorArray normalises
        if case['samp'] == 'grid':
            pts = grid
        elif case['samp'] == 'perm':
            pts = [grid[(i * 37) % len(grid)] for i in range(0, len(grid), 5)]
        elif case['samp'] == 'long':
            pts = [grid[(i * 37) % len(grid)] for i in range(0, len(grid), 3)]
        elif case['samp'] == 'quarter':
            q = [math.pi / 2, math.pi, 0.0, 3 * math.pi / 2, -math.pi / 2, 5 * math.pi / 2]
            pts = [(t, f, q[i % 6]) for i, (t, f, p) in enumerate(grid[(i * 37) % len(grid)] for i in range(0, len(grid), 5))]
        elif case['samp'] == 'bigpsi':
            turns = [1500, -1499, 40001, -7, 3]
            pts = [(t, f, p + 2 * math.pi * turns[(i * 3 + 1) % 5]) for i, (t, f, p) in enumerate(grid[(i * 37) % len(grid)] for i in range(0, len(grid), 5))]
        elif case['samp'] == 'square':   # number of samples == number of detectors (filled up after border filtering)
            pts = [grid[(i * 53 + 7) % len(grid)] for i in range(4 * len(xs))]
        else:
            pts = [grid[100]]
        th = np.array([p[0] for p in pts])
        ph = np.array([p[1] for p in pts])
        ps = np.array([p[2] for p in pts])
        norm = np.sqrt(xs ** 2 + ys ** 2 + z ** 2)
        dirs = np.stack([xs / norm, ys / norm, z / norm], axis=-1)  # (ndet, ndir, 3)
        pix, safe = reference_pixels(nside, dirs, th, ph, ps)
        counters['samples_removed_near_border'] += int((~safe).sum())
        th, ph, ps, pix = th[safe], ph[safe], ps[safe], pix[:, :, safe]
        if case['samp'] == 'square':
            th, ph, ps, pix = th[: len(xs)], ph[: len(xs)], ps[: len(xs)], pix[:, :, : len(xs)]
            if len(th) != len(xs):
                continue
        if len(th) == 0:
            continue
        if case['samp'] == 'long':   # the safe samples repeated until the timeline holds just over 2**16 triples (not a multiple of it)
            nlong = 2 ** 16 // (pix.shape[0] * pix.shape[1]) + 7
            reps = nlong // len(th) + 1
            th, ph, ps = (np.tile(v, reps)[:nlong] for v in (th, ph, ps))
            pix = np.tile(pix, (1, 1, reps))[:, :, :nlong]
        ndet, ndir, ns = pix.shape
        npix = 12 * nside ** 2
        try:
            land = HealpixLandscape(nside, kind, D)
            samplings = Sampling(jnp.asarray(th, D), jnp.asarray(ph, D), jnp.asarray(ps, D))
            dets = DetectorArray(xs, ys, z)
            proj = P.lib('create_projection_operator', create_projection_operator, land, samplings, dets)
            cls = StokesPyTree.class_for(kind)
            comps = {c: (np.arange(npix) * 7.0 + j * 0.25 + 1.0) for j, c in enumerate(kind)}
            sky = cls(*[jnp.asarray(comps[c], D) for c in kind])
            out = P.lib('projection.mv', proj.mv, sky)
            tod_shape = (ndet, ns) if ndir == 1 else (ndet, ndir, ns)
            pixr = pix[:, 0, :] if ndir == 1 else pix
            c2, s2 = np.cos(2 * ps), np.sin(2 * ps)
            exp = {}
            for c in kind:
                exp[c] = comps[c][pixr]
            if 'Q' in kind:
                q, u = exp['Q'], exp['U']
                exp['Q'], exp['U'] = q * c2 - u * s2, q * s2 + u * c2
            for c in kind:
                got = np.asarray(getattr(out, c.lower()), float)
                if got.shape != tod_shape:
                    violations.append({'kind': 'projection-shape', 'case': case, 'detail': f'component {c}: shape {got.shape}, expected {tod_shape}'})
                    break
                if not P.close(got, exp[c], tol):
                    bad = np.argwhere(np.abs(got - exp[c]) > tol * (1 + np.abs(exp[c]).max()))[:3]
                    violations.append({'kind': 'projection-values', 'case': case,
                                       'detail': f'component {c}: {len(bad)}+ entries differ, e.g. at {bad.tolist()}: got {[float(got[tuple(b)]) for b in bad]} expected {[float(exp[c][tuple(b)]) for b in bad]} '
                                                 f'(theta,phi,psi of first: {th[bad[0][-1]]:.3f},{ph[bad[0][-1]]:.3f},{ps[bad[0][-1]]:.3f})'})
                    break
            else:
                counters['projections_ok'] += 1
            if case['samp'] in ('perm', 'single', 'square', 'bigpsi'):
                # the same operators BUILT inside a jitted function from traced pointing arrays
                def built_inside(t_, f_, p_, sky_):
                    s_ = Sampling(t_, f_, p_)
                    return create_projection_operator(land, s_, dets).mv(sky_), create_acquisition(land, s_, dets).mv(sky_)

                outj, acqj = P.lib('projection and acquisition built under jax.jit from traced pointing', jax.jit(built_inside),
                                   jnp.asarray(th, D), jnp.asarray(ph, D), jnp.asarray(ps, D), sky)
                for c in kind:
                    got = np.asarray(getattr(outj, c.lower()), float)
                    if got.shape != tod_shape or not P.close(got, exp[c], tol):
                        violations.append({'kind': 'projection-built-under-jit', 'case': case, 'detail': f'component {c}: shape {got.shape} vs {tod_shape}; max diff {P.maxdiff(got, exp[c]) if got.shape == exp[c].shape else "n/a"}'})
                        break
                else:
                    counters['built_under_jit_ok'] += 1
            else:
                acqj = None
            # acquisition
            try:
                H = create_acquisition(land, samplings, dets)
                acq_err = None
            except Exception as e:  # noqa: BLE001
                acq_err = P.LibError('create_acquisition', e)
            if acq_err is not None:
                violations.append({'kind': 'acquisition-construction-raises', 'case': case, 'detail': f'{acq_err}\n{acq_err.tb}'})
            else:
                i_ = comps['I'][pixr] if 'I' in kind else 0.0
                if 'Q' in kind:
                    want = 0.5 * (i_ + comps['Q'][pixr] * c2 - comps['U'][pixr] * s2)
                else:
                    want = 0.5 * i_ * np.ones(tod_shape)
                got = np.asarray(P.lib('acquisition.mv', H.mv, sky), float)
                if got.shape != tod_shape or not P.close(got, want, tol):
                    violations.append({'kind': 'acquisition-values', 'case': case, 'detail': f'shape {got.shape} vs {tod_shape}; max diff {P.maxdiff(got, want) if got.shape == want.shape else "n/a"}'})
                else:
                    counters['acquisitions_ok'] += 1
                if acqj is not None and (np.asarray(acqj).shape != tod_shape or not P.close(np.asarray(acqj, float), want, tol)):
                    violations.append({'kind': 'acquisition-built-under-jit', 'case': case, 'detail': f'max diff {P.maxdiff(np.asarray(acqj, float), want) if np.asarray(acqj).shape == want.shape else "n/a"}'})
                # before reduction: the same chain unreduced
                from furax.operators.hwp import HWPOperator
                from furax.operators.polarizers import LinearPolarizerOperator

                unred = LinearPolarizerOperator(proj.out_structure()) @ HWPOperator(proj.out_structure()) @ proj
                got2 = np.asarray(P.lib('unreduced acquisition', unred.mv, sky), float)
                if got2.shape != tod_shape or not P.close(got2, want, tol):
                    violations.append({'kind': 'unreduced-acquisition-values', 'case': case, 'detail': f'max diff {P.maxdiff(got2, want) if got2.shape == want.shape else "n/a"}'})
            # full probe at nside 1, hit counts at nside <= 2
            if nside <= 2 and case['samp'] not in ('perm', 'long'):
                counts = np.bincount(pixr.ravel(), minlength=npix).astype(float)
                want_diag = np.diag(np.tile(counts, len(kind)))
                ptp = proj.T @ proj
                for label, op in (('P.T @ P', ptp), ('(P.T @ P).reduce()', None)):
                    if op is None:
                        with xstate.Timeout(120):
                            op = ptp.reduce()
                    M = P.probe(op, cache=False).M
                    if M.shape != want_diag.shape or not P.close(M, want_diag, 1e-9 if x64 else 1e-4):
                        violations.append({'kind': 'hit-counts', 'case': case, 'detail': f'{label}: diag {np.diag(M)[:12]} vs hit counts {np.diag(want_diag)[:12]}; off-diagonal max {np.abs(M - np.diag(np.diag(M))).max():.3g}'})
                        break
                else:
                    counters['hitcount_checks'] += 1
            # the same number of samples with a DIFFERENT pointing, built after the first sampling was dropped: nothing may be
            # remembered from the earlier objects (three rounds so that CPython re-uses the freed addresses)
            import gc

            for rnd in range(3 if case['samp'] != 'long' else 0):
                proj = samplings = H = out = None
                gc.collect()
                k = (rnd + 1) * max(1, ns // 4)
                order = np.roll(np.arange(ns), k)[::-1]
                if ns < 2 or np.array_equal(order, np.arange(ns)):
                    break
                samplings = Sampling(jnp.asarray(th[order], D), jnp.asarray(ph[order], D), jnp.asarray(ps[order], D))
                proj = create_projection_operator(land, samplings, dets)
                out = proj.mv(sky)
                pix2 = pixr[..., order]
                c2b, s2b = np.cos(2 * ps[order]), np.sin(2 * ps[order])
                exp2 = {c: comps[c][pix2] for c in kind}
                if 'Q' in kind:
                    q, u = exp2['Q'], exp2['U']
                    exp2['Q'], exp2['U'] = q * c2b - u * s2b, q * s2b + u * c2b
                bad2 = [c for c in kind if not P.close(np.asarray(getattr(out, c.lower()), float), exp2[c], tol)]
                if bad2:
                    violations.append({'kind': 'projection-depends-on-earlier-objects', 'case': case,
                                       'detail': f'round {rnd}: a projection built from a re-ordered sampling of the same length (after the first one was dropped) is wrong for components {bad2}'})
                    break
            nontrivial.add(json.dumps(case))
        except P.LibError as e:
            violations.append({'kind': 'library-raises', 'case': case, 'detail': f'{e}\n{e.tb}'})
        except Exception as e:  # noqa: BLE001
            err = P.LibError('acquisition model', e)
            violations.append({'kind': 'library-raises', 'case': case, 'detail': f'{err}\n{err.tb}'})
    return {'n': len(cases), 'violations': violations, 'counters': counters, 'nontrivial': nontrivial, 'samples': cases[:1]}


def run_poles(phase, cases, ctx):
    """An on-axis detector whose boresight points EXACTLY at a pole (colatitude 0 or pi, any longitude and position angle): the pole
    is a corner shared by the four pixels of the polar ring, so any of these four is a correct answer - and no other pixel is."""
    import healpy as hp
    import jax
    import jax.numpy as jnp
    import numpy as np

    from furax.detectors import DetectorArray
    from furax.landscapes import HealpixLandscape, StokesPyTree
    from furax.projections import create_projection_operator
    from furax.samplings import Sampling
    from mc import probe as P

    D = jnp.float64 if bool(jax.config.jax_enable_x64) else jnp.float32
    violations, counters, nontrivial = [], collections.Counter(), set()
    for case in cases:
        nside, kind = case['nside'], case['kind']
        npix = 12 * nside ** 2
        th0 = 0.0 if case['pole'] == 'north' else math.pi
        near = th0 + (1e-3 if th0 == 0.0 else -1e-3)
        allowed = {int(hp.ang2pix(nside, near, f)) for f in (0.3, 1.9, 3.5, 5.1)}
        pts = [(th0, f, p) for f in (0.0, 1.0, -2.5, 3.3) for p in (0.0, 0.5, -1.2)]
        th, ph, ps = (np.array([p[i] for p in pts]) for i in range(3))
        try:
            land = HealpixLandscape(nside, kind, D)
            proj = P.lib('create_projection_operator', create_projection_operator, land, Sampling(jnp.asarray(th, D), jnp.asarray(ph, D), jnp.asarray(ps, D)), DetectorArray(np.array([[0.0]]), np.array([[0.0]]), 2.0))
            cls = StokesPyTree.class_for(kind)
            sky = cls(*[jnp.asarray(np.arange(npix) + 1.0 if c == 'I' else np.zeros(npix), D) for c in kind])
            out = P.lib('projection.mv', proj.mv, sky)
            got = np.rint(np.asarray(out.i, float).ravel()).astype(int) - 1
        except P.LibError as e:
            violations.append({'kind': 'library-raises', 'case': case, 'detail': f'{e}\n{e.tb}'})
            continue
        counters['pole_samples'] += len(got)
        nontrivial.add(json.dumps(case))
        bad = [(pts[i], int(g)) for i, g in enumerate(got) if int(g) not in allowed]
        if bad or len(got) != len(pts):
            violations.append({'kind': 'pole-maps-elsewhere', 'case': case, 'detail': f'boresight exactly at the {case["pole"]} pole, on-axis detector: (theta, phi, psi) -> pixel {bad[:4]}; the four pixels touching that pole are {sorted(allowed)}'})
    return {'n': len(cases), 'violations': violations, 'counters': counters, 'nontrivial': nontrivial, 'samples': cases[:1]}


def finalize(results, tier, seed):
    counters = collections.Counter()
    nontrivial = set()
    n = 0
    samples = []
    for name, r in results.items():
        counters.update(r['counters'])
        nontrivial |= {name + k for k in r['nontrivial']}
        samples += r['samples'][:1]
        n += r['n']
    cov = {'evaluations': n, 'distinct_nontrivial': len(nontrivial), 'samples': samples, 'exhaustive': True,
           'projections_ok': counters['projections_ok'], 'acquisitions_ok': counters['acquisitions_ok'], 'hitcount_checks': counters['hitcount_checks'], 'built_under_jit_ok': counters['built_under_jit_ok'],
           'samples_removed_near_border': counters['samples_removed_near_border'], 'pole_samples': counters['pole_samples'], 'pointings_per_grid': len(THETA) * len(PHI) * len(PSI),
           'rule': 'one case = (nside, Stokes kind, detector layout, sampling) per 64-bit mode; every case compares >= 100 (detector, sample) '
                   'pairs per component with the independent pointing model'}
    return {'coverage': cov, 'violations': [], 'assumptions': ['healpy.vec2pix (ring) is the pixelisation reference', 'directions within 1e-4 rad of a pixel border are excluded']}
