"""C01 - reducing an operator never changes the linear map it denotes.

(a) XSTATE: from every well-typed chain of length <= L over four typed alphabets (polarimetry, indexing/axes,
    inverses, blocks) the FULL rewrite graph is explored with the real rule objects: every rule at every position in
    every order; every edge must preserve the dense matrix and the structures; the union graph must be acyclic.
(b) driver: CompositionOperator(chain).reduce() for every chain (and twice), under a watchdog, with the driver's own
    firing trace recorded and replayed as a path of the graph.
(c) BEX: expression trees (sums, blocks in several containers, transposes, inverses, scalars, nested compositions)
    with reduce() at the root.
"""
from __future__ import annotations

import collections

from mc import domains

PROPERTY = 'C01'
LEVEL = 'model_checking'
TARGET = 'checks.c01:run'

LENGTHS = {
    'quick': {'POL': 4, 'IDX': 4, 'INV': 3, 'BLK': 3, 'EXT': 4, 'AXT': 3},
    'thorough': {'POL': 5, 'IDX': 5, 'INV': 4, 'BLK': 4, 'EXT': 5, 'AXT': 4},
}


def plan(tier, seed):
    phases = []
    for dom, L in LENGTHS[tier].items():
        chains = domains.typed_chains(dom, L)
        phases.append({'name': f'graph_{dom}', 'target': TARGET, 'x64': False, 'ctx': {'dom': dom},
                       'cases': [{'dom': dom, 'chain': c} for c in chains], 'chunk': max(20, len(chains) // 160)})
    # the same expressions rebuilt with other parameter values after the earlier operators were dropped: nothing may be
    # remembered about objects that no longer exist (each shard: 3 generations of freshly built atoms)
    for dom in ('POL', 'IDX', 'INV', 'BLK', 'AXT'):
        chains = [c for c in domains.typed_chains(dom, 2 if tier == 'quick' else 3) if len(c) >= 2]
        phases.append({'name': f'rebuild_{dom}', 'target': TARGET, 'x64': False, 'ctx': {'dom': dom},
                       'cases': [{'dom': dom, 'chain': c, 'rebuild': 3} for c in chains], 'chunk': max(12, len(chains) // 32)})
    from checks import c01_trees

    phases += c01_trees.plan(tier, seed)
    return phases


# ------------------------------------------------------------------------------------------ worker
_EXPL: dict = {}


def get_explorer(dom):
    from mc import xstate

    if dom not in _EXPL:
        atoms = domains.build(dom)
        env = xstate.Env(atoms, domains.EXACT[dom])
        _EXPL[dom] = xstate.Explorer(env)
    return _EXPL[dom]


def singular_witness(label, left, right):
    """Recognises exactly the recorded defect F9: InverseBinaryRule (or the construction shortcut) collapsing
    `Dz.I @ Dz` / `Dz @ Dz.I` for a diagonal operator Dz with a zero entry."""
    import numpy as np

    from furax._base.diagonal import DiagonalInverseOperator

    for a, b in ((left, right), (right, left)):
        if isinstance(a, DiagonalInverseOperator) and a.operator is b:
            if bool(np.any(np.asarray(b._diagonal) == 0)):
                return True
    return False


def witness_fn(label, pos, ops, nxt):
    if label == 'InverseBinaryRule' and 0 <= pos < len(ops) - 1:
        if singular_witness(label, ops[pos], ops[pos + 1]):
            return {'singular_inverse_collapse': True, 'other_unsound': False}
    return {'singular_inverse_collapse': False, 'other_unsound': True}


def driver_check(env, ops, desc, violations, counters):
    """reduce() of the composed chain: terminates, same structures, same matrix, trace is a path of the graph."""
    import numpy as np

    from furax._base.core import CompositionOperator
    from mc import probe as P
    from mc import xstate
    from mc.pool import CaseTimeout

    n_in = P.ssize(ops[-1].in_structure())
    ref = env.chain_dense(ops, n_in)
    expr = ops[0] if len(ops) == 1 else CompositionOperator(list(ops))
    try:
        with xstate.Recorder() as rec, xstate.Timeout(60), P.quiet():
            red = expr.reduce()
    except CaseTimeout:
        violations.append({'kind': 'nontermination', 'case': desc, 'detail': 'reduce() did not return within 60 s'})
        return None
    except BaseException as e:  # noqa: BLE001
        err = P.LibError('reduce', e)
        violations.append({'kind': 'reduce-raises', 'case': desc, 'detail': f'{err}\n{err.tb}'})
        return None
    counters['driver_runs'] += 1
    if rec.log:
        counters['driver_runs_with_firings'] += 1
    problem = None
    try:
        if not P.same_struct(red.in_structure(), ops[-1].in_structure()):
            problem = f'in_structure changed: {red.in_structure()} vs {ops[-1].in_structure()}'
        elif not P.same_struct(red.out_structure(), ops[0].out_structure()):
            problem = f'out_structure changed: {red.out_structure()} vs {ops[0].out_structure()}'
        else:
            M = env.dense(red)
            if not P.close(M, ref, env.tol() or 1e-6):
                problem = f'dense matrix changed by reduce() (max |diff| {P.maxdiff(M, ref):.4g}); before {P.mat_summary(ref, 36)} after {P.mat_summary(M, 36)}'
    except P.LibError as e:
        problem = f'the reduced operator cannot be applied: {e}\n{e.tb}'
    if problem is not None:
        # attribute: are all individually unsound firings instances of the recorded defect?
        unsound = []
        for name, left, right, new in rec.log:
            try:
                before = env.dense(left) @ env.dense(right)
                after = env.chain_dense(list(new), before.shape[1]) if new else np.eye(before.shape[1])
                if before.shape != after.shape or not P.close(after, before, env.tol() or 1e-6):
                    unsound.append((name, left, right))
            except (P.LibError, ValueError):   # operands that do not even chain: certainly not a sound firing
                unsound.append((name, left, right))
        w = {'singular_inverse_collapse': bool(unsound) and all(n == 'InverseBinaryRule' and singular_witness(n, l, r) for n, l, r in unsound),
             'other_unsound': not unsound or any(not (n == 'InverseBinaryRule' and singular_witness(n, l, r)) for n, l, r in unsound)}
        violations.append({'kind': 'reduce-changes-map', 'case': desc, 'detail': problem, 'witness': w})
        return red
    # idempotence of the denotation: reduce the result again
    try:
        with xstate.Timeout(60), P.quiet():
            red2 = red.reduce()
        if not P.close(env.dense(red2), ref, env.tol() or 1e-6):
            violations.append({'kind': 'second-reduce-changes-map', 'case': desc, 'detail': f'max |diff| {P.maxdiff(env.dense(red2), ref):.4g}'})
    except CaseTimeout:
        violations.append({'kind': 'nontermination', 'case': desc, 'detail': 'second reduce() did not return within 60 s'})
    except BaseException as e:  # noqa: BLE001
        err = P.LibError('reduce(reduce())', e)
        violations.append({'kind': 'reduce-raises', 'case': desc, 'detail': f'{err}\n{err.tb}'})
    # conformance: the recorded firing sequence is a path of the graph ending in the returned operands
    if len(ops) > 1:
        try:
            start = [o.reduce() for o in ops]
            result_ops = list(red.operands) if isinstance(red, CompositionOperator) else [red]
            ok = xstate.replay_trace(env, start, rec.log, result_ops) or (
                _is_identity(red) and xstate.replay_trace(env, start, rec.log, []))
            counters['traces_validated' if ok else 'traces_unvalidated'] += 1
            if not ok:
                counters['unvalidated:' + ' '.join(desc['chain'])[:60]] += 1
        except BaseException:  # noqa: BLE001
            counters['traces_unvalidated'] += 1
    return red


def run_rebuild(dom, cases):
    import gc

    from furax._base.core import CompositionOperator
    from mc import probe as P
    from mc import xstate

    violations = []
    counters = collections.Counter()
    failed = set()
    for case in cases:
      key = ' '.join(case['chain'])
      # the loop body is the same sequence of allocations in every generation (build, reduce, compare, drop): CPython then
      # hands the addresses of the dropped operators to their successors
      for gen in range(case.get('rebuild', 3)):
        if key in failed:
            break
        atoms = domains.build(dom, variant=gen, fresh=True)
        env = xstate.Env(atoms, domains.EXACT[dom])
        if True:
            ops = [atoms[n] for n in case['chain']]
            try:
                ref = env.chain_dense(ops, P.ssize(ops[-1].in_structure()))
                with xstate.Timeout(60), P.quiet():
                    red = CompositionOperator(list(ops)).reduce()
                problem = None
                if not P.same_struct(red.in_structure(), ops[-1].in_structure()) or not P.same_struct(red.out_structure(), ops[0].out_structure()):
                    problem = f'structures changed: {red.in_structure()} -> {red.out_structure()}'
                else:
                    M = env.dense(red)
                    if not P.close(M, ref, env.tol() or 1e-6):
                        problem = f'dense matrix changed by reduce() (max |diff| {P.maxdiff(M, ref):.4g}); before {P.mat_summary(ref, 36)} after {P.mat_summary(M, 36)}'
                if problem:
                    failed.add(key)
                    w = {'singular_inverse_collapse': False, 'other_unsound': True}
                    if gen == 0 or any(n in ('Dz', 'Dzi') for n in case['chain']):
                        # generation 0 repeats what the graph phases decide (and classify); only later generations are new here
                        counters['left_to_graph_phase'] += 1
                    else:
                        violations.append({'kind': 'reduce-depends-on-dropped-operators', 'case': case, 'witness': w,
                                           'detail': f'generation {gen} (same expression, parameters x{2 ** gen}, built after the earlier generation was dropped): {problem}'})
                counters['rebuild_reductions'] += 1
            except P.LibError as e:
                failed.add(key)
                if gen:
                    violations.append({'kind': 'reduce-depends-on-dropped-operators', 'case': case, 'detail': f'generation {gen}: {e}\n{e.tb}'})
            except BaseException as e:  # noqa: BLE001
                if type(e).__name__ in ('KeyboardInterrupt', 'SystemExit', 'CaseTimeout'):
                    raise
                failed.add(key)
                if gen:
                    err = P.LibError('reduce', e)
                    violations.append({'kind': 'reduce-depends-on-dropped-operators', 'case': case, 'detail': f'generation {gen}: {err}\n{err.tb}'})
            ops = red = ref = M = None
        atoms = env = None
        gc.collect()
    return {'n': len(cases), 'violations': violations, 'counters': counters, 'states': set(), 'edges': set(), 'terminals': set(),
            'transitions_fired': 0, 'rule_hits': collections.Counter(), 'rule_ctx': {}, 'nontrivial': set(), 'samples': [], 'maxdepth': [0]}


def _is_identity(op):
    from furax._base.core import IdentityOperator

    return isinstance(op, IdentityOperator)


def run(phase, cases, ctx):
    if phase.startswith('trees'):
        from checks import c01_trees

        return c01_trees.run(phase, cases, ctx)
    dom = ctx['dom']
    if phase.startswith('rebuild'):
        return run_rebuild(dom, cases)
    ex = get_explorer(dom)
    env = ex.env
    violations = []
    counters = collections.Counter()
    nontrivial = set()
    samples = []
    s0, e0, t0 = set(ex.seen), set(ex.edges), set(ex.terminals)
    hits0 = dict(ex.rule_hits)
    ntrans0 = ex.ntrans
    for case in cases:
        ops = [env.atoms[n] for n in case['chain']]
        from mc import probe as P

        try:
            before = ex.ntrans
            ex.explore(ops, case, violations, witness_fn)
            # non-trivial: at least one transition is enabled in the root state
            from mc import xstate

            if xstate.successors(env, ops):
                nontrivial.add(' '.join(case['chain']))
                if len(samples) < 3:
                    samples.append(case)
            driver_check(env, ops, case, violations, counters)
        except P.LibError as e:
            violations.append({'kind': 'operand-fails', 'case': case, 'detail': f'{e}\n{e.tb}'})
    rule_hits = collections.Counter(ex.rule_hits)
    rule_hits.subtract(hits0)
    return {
        'n': len(cases), 'violations': violations, 'counters': counters,
        'states': ex.seen - s0, 'edges': ex.edges - e0, 'terminals': ex.terminals - t0,
        'transitions_fired': ex.ntrans - ntrans0, 'rule_hits': +rule_hits,
        'rule_ctx': {k: set(v) for k, v in ex.rule_ctx.items()},
        'nontrivial': nontrivial, 'samples': samples, 'maxdepth': [ex.maxdepth],
    }


def find_cycle(edges):
    """Kahn's algorithm on the union graph; returns the number of nodes on cycles (0 = acyclic)."""
    succ = collections.defaultdict(list)
    indeg = collections.Counter()
    nodes = set()
    for a, b in edges:
        succ[a].append(b)
        indeg[b] += 1
        nodes.add(a)
        nodes.add(b)
    queue = [n for n in nodes if indeg[n] == 0]
    seen = 0
    while queue:
        n = queue.pop()
        seen += 1
        for m in succ[n]:
            indeg[m] -= 1
            if indeg[m] == 0:
                queue.append(m)
    return len(nodes) - seen


def finalize(results, tier, seed):
    violations = []
    states = transitions = terminals = 0
    nontrivial = 0
    roots = 0
    rule_hits = collections.Counter()
    rule_ctx = collections.Counter()
    counters = collections.Counter()
    samples = []
    per_domain = {}
    for name, res in results.items():
        if not name.startswith('graph_'):
            continue
        cyc = find_cycle(res['edges'])
        if cyc:
            violations.append({'kind': 'rewrite-cycle', 'case': {'dom': name}, 'phase': name, 'target': TARGET,
                               'detail': f'{cyc} states of the rewrite graph lie on cycles: reduce() can loop forever'})
        states += len(res['states'])
        transitions += len(res['edges'])
        terminals += len(res['terminals'])
        nontrivial += len(res['nontrivial'])
        roots += res['n']
        rule_hits.update(res['rule_hits'])
        for k, v in res['rule_ctx'].items():
            rule_ctx[k] += len(v)
        counters.update(res['counters'])
        samples += res['samples'][:2]
        per_domain[name] = {'roots': res['n'], 'states': len(res['states']), 'edges': len(res['edges']),
                            'terminals': len(res['terminals']), 'transitions_fired': res['transitions_fired'],
                            'max_depth': max(res['maxdepth'])}
    rebuilt = sum(res['counters'].get('rebuild_reductions', 0) for name, res in results.items() if name.startswith('rebuild_'))
    from checks import c01_trees

    tree_cov = c01_trees.coverage(results)
    cov = {
        'states': states, 'transitions': transitions, 'terminal_states': terminals,
        'traces_validated_against_impl': counters.get('traces_validated', 0),
        'traces_unvalidated': counters.get('traces_unvalidated', 0),
        'driver_runs': counters.get('driver_runs', 0),
        'driver_runs_with_firings': counters.get('driver_runs_with_firings', 0),
        'root_chains': roots, 'per_domain': per_domain, 'reductions_after_rebuild': rebuilt,
        'unvalidated_examples': sorted(k[12:] for k in counters if k.startswith('unvalidated:'))[:12],
        'rule_firings': dict(rule_hits), 'rule_distinct_neighbour_contexts': dict(rule_ctx),
        'evaluations': roots + tree_cov.get('trees', 0), 'distinct_nontrivial': nontrivial + tree_cov.get('trees_nontrivial', 0),
        'rule': 'roots = all well-typed chains up to the length bound per domain; states/transitions = distinct canonical '
                'states / distinct edges of the union rewrite graph (every rule at every position in every order); '
                'non-trivial root = at least one transition enabled; non-trivial tree = reduce() changed its canonical form',
        'samples': samples + tree_cov.get('samples', []), 'exhaustive': True, 'acyclic': not any(v['kind'] == 'rewrite-cycle' for v in violations),
        'trees': tree_cov,
        'length_bounds': LENGTHS[tier],
    }
    return {'coverage': cov, 'violations': violations,
            'assumptions': ['linearity of every operand (decided by C04) licenses comparing maps on a basis',
                            'canonical state key merges only states with identical class/parameters/identity relations']}
