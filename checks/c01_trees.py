"""C01(c): expression trees with reduce() at the root (and at inner nodes), over containers and operand kinds.

Grammar (JSON lists): ['atom', n] | ['row'|'diag'|'col', container, e1, e2] | ['+',e1,e2] | ['-',e1,e2] | ['@',e1,e2]
| ['k*',k,e] | ['/k',k,e] | ['T',e] | ['I',e] | ['neg',e] | ['red',e].  Typing is symbolic (space labels) so that the
coordinator enumerates the well-typed trees without JAX.
"""
from __future__ import annotations

import collections
import itertools
import json

TARGET = 'checks.c01:run'
ATOMS = ['P', 'Q', 'D', 'Di', 'I', 'K', 'Pt']
CONTAINERS = ['list', 'tuple', 'dict', 'nested', 'dictnested', 'single']
PAIRS_QUICK = [('P', 'Q'), ('D', 'Di'), ('I', 'I'), ('K', 'P')]
PAIRS_THOROUGH = PAIRS_QUICK + [('Di', 'D'), ('Pt', 'P'), ('P', 'I')]


def typ(e):
    """(in label, out label) of an expression; None if ill-typed."""
    k = e[0]
    if k == 'atom':
        return ('a', 'a')
    if k in ('row', 'diag', 'col'):
        c = e[1]
        subs = e[2:3] if c == 'single' else e[2:4]
        for s in subs:
            if typ(s) != ('a', 'a'):
                return None
        return {'row': (c, 'a'), 'diag': (c, c), 'col': ('a', c)}[k]
    if k in ('+', '-'):
        t1, t2 = typ(e[1]), typ(e[2])
        return t1 if t1 is not None and t1 == t2 else None
    if k == '@':
        t1, t2 = typ(e[1]), typ(e[2])
        if t1 is None or t2 is None or t1[0] != t2[1]:
            return None
        return (t2[0], t1[1])
    if k in ('k*', '/k'):
        return typ(e[2])
    if k == 'T':
        t = typ(e[1])
        return None if t is None else (t[1], t[0])
    if k == 'I':
        t = typ(e[1])
        return t if t is not None and t[0] == t[1] and invertible(e[1]) else None
    if k in ('neg', 'red'):
        return typ(e[1])
    raise KeyError(k)


def invertible(e):
    """Expressions whose inverse is defined by the library: closed forms (diagonal, scalar, identity, block diagonal of
    those) or symmetric positive definite (so that the lazy CG inverse applies).  P, Q are not SPD."""
    k = e[0]
    if k == 'atom':
        return e[1] in ('D', 'Di', 'I', 'K')
    if k == 'diag':
        return all(invertible(s) for s in (e[2:3] if e[1] == 'single' else e[2:4]))
    if k in ('@', '+'):
        return invertible(e[1]) and invertible(e[2])
    if k in ('k*', '/k'):
        return invertible(e[2])
    if k in ('T', 'red'):
        return invertible(e[1])
    return False


def level1(pairs):
    out = [['atom', n] for n in ATOMS]
    for x, y in pairs:
        ex, ey = ['atom', x], ['atom', y]
        for c in CONTAINERS:
            for cls in ('row', 'diag', 'col'):
                out.append([cls, c, ex, ey])
        out += [['+', ex, ey], ['-', ex, ey], ['@', ex, ey], ['k*', 2, ['@', ex, ey]], ['/k', 4, ['+', ex, ey]]]
    return out


def plan(tier, seed):
    l1 = level1(PAIRS_QUICK if tier == 'quick' else PAIRS_THOROUGH)
    trees = list(l1)
    for x, y in itertools.product(l1, repeat=2):
        e = ['@', x, y]
        if typ(e) is not None:
            trees.append(e)
            if tier == 'thorough':
                trees.append(['@', ['red', x], y])
    for x in l1:
        trees.append(['T', x])
        trees.append(['neg', x])
        if typ(['I', x]) is not None:
            trees.append(['I', x])
            trees.append(['@', ['I', x], x])
            trees.append(['@', x, ['I', x]])
    if tier == 'thorough':
        for x, y in itertools.product(l1, repeat=2):
            if typ(['+', x, y]) is not None and x[0] != 'atom':
                trees.append(['+', x, y])
                trees.append(['T', ['-', x, y]])
    seen = set()
    uniq = []
    for t in trees:
        k = json.dumps(t)
        if k not in seen:
            seen.add(k)
            uniq.append(t)
    return [{'name': 'trees', 'target': TARGET, 'x64': False, 'cases': uniq, 'chunk': max(8, len(uniq) // 200)}]


# ------------------------------------------------------------------------------------------ worker
_ENV = {}


def env():
    if _ENV:
        return _ENV
    import jax
    import jax.numpy as jnp

    from furax._base.core import HomothetyOperator, IdentityOperator
    from furax._base.dense import DenseBlockDiagonalOperator
    from furax._base.diagonal import DiagonalOperator
    from mc import xstate

    f32 = jnp.float32
    a = jax.ShapeDtypeStruct((2,), f32)

    def dn(m):
        return DenseBlockDiagonalOperator(jnp.asarray(m, f32), a, 'ij,j->i')

    P, Q = dn([[1, 2], [3, 5]]), dn([[0, 1], [-1, 2]])
    D = DiagonalOperator(jnp.array([2.0, 4.0], f32), in_structure=a)
    atoms = {'P': P, 'Q': Q, 'D': D, 'Di': D.I, 'I': IdentityOperator(a), 'K': HomothetyOperator(jnp.asarray(2.0, f32), a), 'Pt': P.T}
    _ENV.update(atoms=atoms, xenv=xstate.Env(atoms, False))
    return _ENV


def container(kind, x, y):
    return {'list': [x, y], 'tuple': (x, y), 'dict': {'v': y, 'u': x}, 'nested': [[x, y]],
            'dictnested': {'u': (x, y)}, 'single': [x]}[kind]


def build(e):
    from furax._base.blocks import BlockColumnOperator, BlockDiagonalOperator, BlockRowOperator

    k = e[0]
    if k == 'atom':
        return env()['atoms'][e[1]]
    if k in ('row', 'diag', 'col'):
        cls = {'row': BlockRowOperator, 'diag': BlockDiagonalOperator, 'col': BlockColumnOperator}[k]
        x = build(e[2])
        y = build(e[3]) if e[1] != 'single' else None
        return cls(container(e[1], x, y))
    if k == '+':
        return build(e[1]) + build(e[2])
    if k == '-':
        return build(e[1]) - build(e[2])
    if k == '@':
        return build(e[1]) @ build(e[2])
    if k == 'k*':
        return e[1] * build(e[2])
    if k == '/k':
        return build(e[2]) / e[1]
    if k == 'T':
        return build(e[1]).T
    if k == 'I':
        return build(e[1]).I
    if k == 'neg':
        return -build(e[1])
    if k == 'red':
        return build(e[1]).reduce()
    raise KeyError(k)


def run(phase, cases, ctx):
    from mc import probe as P
    from mc import xstate
    from mc.pool import CaseTimeout

    xenv = env()['xenv']
    violations = []
    nontrivial = set()
    counters = collections.Counter()
    samples = []
    for case in cases:
        try:
            e = P.lib('build', build, case)
        except P.LibError as err:
            violations.append({'kind': 'tree-build-raises', 'case': case, 'detail': f'{err}\n{err.tb}'})
            continue
        try:
            M = P.probe(e, cache=False).M
        except P.LibError as err:
            violations.append({'kind': 'tree-apply-raises', 'case': case, 'detail': f'{err}\n{err.tb}'})
            continue
        try:
            with xstate.Timeout(60), P.quiet():
                r = e.reduce()
        except CaseTimeout:
            violations.append({'kind': 'nontermination', 'case': case, 'detail': 'reduce() did not return within 60 s'})
            continue
        except BaseException as ex:  # noqa: BLE001
            err = P.LibError('reduce', ex)
            violations.append({'kind': 'reduce-raises', 'case': case, 'detail': f'{err}\n{err.tb}'})
            continue
        try:
            if not P.same_struct(r.in_structure(), e.in_structure()) or not P.same_struct(r.out_structure(), e.out_structure()):
                violations.append({'kind': 'reduce-changes-structure', 'case': case,
                                   'detail': f'{e.in_structure()}->{e.out_structure()} became {r.in_structure()}->{r.out_structure()}'})
                continue
            Mr = P.probe(r, cache=False).M
            if not P.close(Mr, M, 1e-4):
                violations.append({'kind': 'reduce-changes-map', 'case': case,
                                   'detail': f'max |diff| {P.maxdiff(Mr, M):.4g}; before {P.mat_summary(M, 36)} after {P.mat_summary(Mr, 36)}',
                                   'witness': {'singular_inverse_collapse': False, 'other_unsound': True}})
                continue
        except P.LibError as err:
            violations.append({'kind': 'reduced-apply-raises', 'case': case, 'detail': f'{err}\n{err.tb}'})
            continue
        counters['trees_ok'] += 1
        if xenv.key(r) != xenv.key(e):
            nontrivial.add(json.dumps(case))
            if len(samples) < 2:
                samples.append(case)
    return {'n': len(cases), 'violations': violations, 'nontrivial': nontrivial, 'counters': counters, 'samples': samples}


def coverage(results):
    res = results.get('trees')
    if not res:
        return {}
    return {'trees': res['n'], 'trees_nontrivial': len(res['nontrivial']), 'trees_ok': res['counters'].get('trees_ok', 0),
            'samples': res['samples'][:2]}
