"""C15 - polarimetry operators realise their Mueller matrices.

4 Stokes kinds x component shapes (2,), (2,3) x angle arrays of every shape that broadcasts to the data shape x values
{0, +-pi/8, pi/3, -7, 2.5, 1e-3, pi/2, ...}.  Reference: explicit per-sample 4x4 Mueller matrices (numpy) restricted to
the kind.  Oracle: basis probes of HWP, R(a), R(a).T, the polariser and its (generic) transpose; the three create(...)
factories with and without angles, before and after reduce(); and EVERY chain of length <= L over {R1, R2, R1.T, R2.T,
HWP, polariser} before and after reduce() against the product of the reference matrices (an independent reference,
not only the differential oracle of C01).  Both 64-bit modes.
"""
from __future__ import annotations

import collections
import itertools
import json
import math

PROPERTY = 'C15'
LEVEL = 'exploration'
TARGET = 'checks.c15:run'
KINDS = ['I', 'QU', 'IQU', 'IQUV']
ANGLES = {
    (2,): {'big': [3.0e4 + 0.3, -2.5e4],'s0': 0.0, 's1': math.pi / 8, 's2': -7.0, 'v1': [math.pi / 3, -math.pi / 8], 'v2': [2.5, 1e-3], 'one': [math.pi / 2]},
    (2, 2): {'s1': -0.4, 'v2': [0.3, -1.1], 'c21': [[0.7], [2.5]], 'm22': [[0.1, 1.2], [-2.0, 0.6]]},
    (2, 3): {'s1': math.pi / 3, 'r3': [0.3, -1.1, 2.5], 'c21': [[0.3], [-7.0]], 'm23': [[0.0, math.pi / 8, 1e-3], [math.pi / 2, -0.4, 2.5]], 'r13': [[1.0, 2.0, -3.0]]},
}
SYMS = {'Rn': ('S', 'S'), 'R1': ('S', 'S'), 'R2': ('S', 'S'), 'R1t': ('S', 'S'), 'R2t': ('S', 'S'), 'H': ('S', 'S'), 'Pol': ('S', 'D'), 'PolT': ('D', 'S')}


def chains(maxlen):
    names = list(SYMS)
    out = []
    for L in range(2, maxlen + 1):
        for c in itertools.product(names, repeat=L):
            if all(SYMS[c[i]][0] == SYMS[c[i + 1]][1] for i in range(L - 1)):
                out.append(list(c))
    return out


def plan(tier, seed):
    from mc import imporder

    return _plan(tier, seed) + [imporder.phase(tier, 'pol')]


def _plan(tier, seed):
    basic = []
    for kind in KINDS:
        for shape, angs in ANGLES.items():
            for an in angs:
                if an == 'big':   # large angles lose absolute precision in float32: only used with float64 angles (64-bit mode)
                    continue
                basic.append({'kind': kind, 'shape': list(shape), 'angles': an})
    L = 3 if tier == 'quick' else 4
    ch = [{'kind': k, 'shape': [2], 'a1': 'v1', 'a2': 'v2', 'chain': c} for k in KINDS for c in chains(L)]
    ch += [{'kind': k, 'shape': [2, 3], 'a1': 'c21', 'a2': 's1', 'chain': c} for k in ('IQU', 'QU') for c in chains(3)]
    if L < 4:   # congruences X' a b X whose two ends are an operator and its own transpose (or the same symmetric operator)
        inner = [s_ for s_ in SYMS if SYMS[s_] == ('S', 'S')]
        ch += [{'kind': k, 'shape': [2], 'a1': 'v1', 'a2': 'v2', 'chain': [l_, a_, b_, r_]} for k in KINDS for l_, r_ in (('R1t', 'R1'), ('R1', 'R1t'), ('H', 'H'), ('Pol', 'PolT'))
               for a_ in inner for b_ in inner]
    return [
        {'name': 'ops_x32', 'target': TARGET, 'x64': False, 'cases': basic, 'chunk': 2},
        {'name': 'ops_x64', 'target': TARGET, 'x64': True, 'cases': basic + [{'kind': k, 'shape': [2], 'angles': 'big', 'f32data': True} for k in KINDS], 'chunk': 2},
        {'name': 'chains_x32', 'target': TARGET, 'x64': False, 'cases': ch, 'chunk': max(10, len(ch) // 200)},
        {'name': 'chains_x64', 'target': TARGET, 'x64': True, 'cases': ch if tier == 'thorough' else ch[::5], 'chunk': 20},
    ]


# ------------------------------------------------------------------------------------------ reference
def mueller(which, a):
    import numpy as np

    if which == 'hwp':
        return np.diag([1.0, 1.0, -1.0, -1.0])
    c, s = math.cos(2 * a), math.sin(2 * a)
    if which == 'rot':
        return np.array([[1, 0, 0, 0], [0, c, -s, 0], [0, s, c, 0], [0, 0, 0, 1.0]])
    if which == 'rot_t':
        return np.array([[1, 0, 0, 0], [0, c, s, 0], [0, -s, c, 0], [0, 0, 0, 1.0]])
    raise KeyError(which)


COMP = {'I': 0, 'Q': 1, 'U': 2, 'V': 3}


def stokes_matrix(kind, shape, which, angles_full):
    """Dense matrix on the flattened Stokes pytree (leaf order = component order, row-major inside a component)."""
    import numpy as np

    n = int(np.prod(shape))
    comps = [COMP[c] for c in kind]
    M = np.zeros((len(comps) * n, len(comps) * n))
    af = np.asarray(angles_full, float).ravel()
    for s in range(n):
        m = mueller(which, af[s])
        for oi, co in enumerate(comps):
            for ii, ci in enumerate(comps):
                M[oi * n + s, ii * n + s] = m[co, ci]
    return M


def pol_matrix(kind, shape):
    import numpy as np

    n = int(np.prod(shape))
    M = np.zeros((n, len(kind) * n))
    for s in range(n):
        if kind == 'I':
            M[s, s] = 0.5
        elif kind == 'QU':
            M[s, s] = 0.5
        else:
            M[s, s] = 0.5
            M[s, n + s] = 0.5
    return M


def run(phase, cases, ctx):
    import jax
    import jax.numpy as jnp
    import numpy as np

    from furax._base.core import CompositionOperator
    from furax.landscapes import StokesPyTree
    from furax.operators.hwp import HWPOperator
    from furax.operators.polarizers import LinearPolarizerOperator
    from furax.operators.qu_rotations import QURotationOperator
    from mc import probe as P
    from mc import xstate

    x64 = bool(jax.config.jax_enable_x64)
    D = jnp.float64 if x64 else jnp.float32
    tol = 1e-12 if x64 else 2e-5
    violations = []
    counters = collections.Counter()
    nontrivial = set()

    def cmp(case, label, op, ref):
        counters['comparisons'] += 1
        try:
            M = P.probe(op, cache=False).M
        except P.LibError as e:
            violations.append({'kind': 'library-raises', 'case': case, 'detail': f'{label}: {e}\n{e.tb}'})
            return
        if M.shape != ref.shape or not P.close(M, ref, tol):
            violations.append({'kind': 'wrong-mueller-matrix', 'case': case,
                               'detail': f'{label}: max diff {P.maxdiff(M, ref):.4g}; got {P.mat_summary(M, 40)} reference {P.mat_summary(ref, 40)}'})

    for case in cases:
        kind, shape = case['kind'], tuple(case['shape'])
        S = StokesPyTree.class_for(kind).structure_for(shape, D)
        try:
            if case.get('f32data'):
                if not x64:
                    continue
                # float32 Stokes data with float64 angles of large magnitude: the factories must use the angles as given
                S32 = StokesPyTree.class_for(kind).structure_for(shape, jnp.float32)
                a = jnp.asarray(ANGLES[shape]['big'], jnp.float64)
                full = np.broadcast_to(np.asarray(a, float), shape)
                mR, mRt, mH, mP = (stokes_matrix(kind, shape, 'rot', full), stokes_matrix(kind, shape, 'rot_t', full), stokes_matrix(kind, shape, 'hwp', full), pol_matrix(kind, shape))
                for label, op_, ref in (('HWP.create(float32, float64 angles)', HWPOperator.create(shape, jnp.float32, kind, angles=a), mRt @ mH @ mR),
                                        ('polariser.create(float32, float64 angles)', LinearPolarizerOperator.create(shape, jnp.float32, kind, angles=a), mP @ mR),
                                        ('rotation.create(float32, float64 angles)', QURotationOperator.create(shape, jnp.float32, kind, angles=a), mR),
                                        ('rotation(float32, float64 angles).T', QURotationOperator.create(shape, jnp.float32, kind, angles=a).T, mRt),
                                        ('rotation(float32, float64 angles).I', QURotationOperator.create(shape, jnp.float32, kind, angles=a).I, mRt)):
                    if not P.same_struct(op_.in_structure(), S32):
                        violations.append({'kind': 'factory-structure', 'case': case, 'detail': f'{label}: {op_.in_structure()}'})
                        continue
                    for lab2, o2 in ((label, op_), (label + ' reduced', op_.reduce())):
                        M = P.probe(o2, cache=False).M
                        counters['comparisons'] += 1
                        if M.shape != ref.shape or not P.close(M, ref, 1e-6):
                            violations.append({'kind': 'wrong-mueller-matrix', 'case': case, 'detail': f'{lab2}: max diff {P.maxdiff(M, ref):.4g}'})
                nontrivial.add(json.dumps(case))
                continue
            if 'chain' not in case:
                av = ANGLES[shape][case['angles']]
                a = jnp.asarray(av, D)
                full = np.broadcast_to(np.asarray(a, float), shape)
                R = QURotationOperator(a, S)
                H = HWPOperator(S)
                Pol = LinearPolarizerOperator(S)
                mR, mRt, mH, mP = (stokes_matrix(kind, shape, 'rot', full), stokes_matrix(kind, shape, 'rot_t', full),
                                   stokes_matrix(kind, shape, 'hwp', full), pol_matrix(kind, shape))
                cmp(case, 'R(a)', R, mR)
                cmp(case, 'R(a).T', R.T, mRt)
                cmp(case, 'HWP', H, mH)
                cmp(case, 'polariser', Pol, mP)
                cmp(case, 'polariser.T', Pol.T, mP.T)
                cmp(case, 'R(a).T.T', R.T.T, mR)
                cmp(case, 'R(a).I', R.I, mRt)
                # the same rotation when its angles are abstract values: the operator handed to a jitted function as an argument,
                # and built inside vmap over a batch of angle arrays (what is not supported is skipped; only wrong values count)
                import equinox as eqx

                nS = mR.shape[1]
                xv = (np.arange(nS) % 5) + 1.0
                xS = P.unflat(xv, S)
                for label, o_, ref_ in (('R(a) as a jit argument', R, mR), ('R(a).T as a jit argument', R.T, mRt)):
                    try:
                        got = P.flat(P.lib(label, eqx.filter_jit(lambda o, v: o.mv(v)), o_, xS))
                    except P.LibError:
                        counters['traced_angle_contexts_unsupported'] += 1
                        continue
                    counters['comparisons'] += 1
                    if not P.close(got, ref_ @ xv, tol):
                        violations.append({'kind': 'wrong-with-traced-angles', 'case': case, 'detail': f'{label}: {got[:6]} instead of {(ref_ @ xv)[:6]}'})
                try:
                    A2 = jnp.stack([a, a + jnp.asarray(0.25, D)])
                    Y = P.lib('vmap over angles', jax.vmap(lambda ang: QURotationOperator(ang, S).mv(xS)), A2)
                    Yt = P.lib('vmap over angles (transpose)', jax.vmap(lambda ang: QURotationOperator(ang, S).T.mv(xS)), A2)
                except P.LibError:
                    counters['traced_angle_contexts_unsupported'] += 1
                else:
                    for k_, da in enumerate((0.0, 0.25)):
                        for lab_, Y_, which in (('R', Y, 'rot'), ('R.T', Yt, 'rot_t')):
                            ref_ = stokes_matrix(kind, shape, which, full + da) @ xv
                            got = P.flat(jax.tree.map(lambda l, k_=k_: l[k_], Y_))
                            counters['comparisons'] += 1
                            if not P.close(got, ref_, tol):
                                violations.append({'kind': 'wrong-with-traced-angles', 'case': case, 'detail': f'{lab_}(a + {da}) built under vmap over the angles: {got[:6]} instead of {ref_[:6]}'})
                # algebraic identities realised by the library, before and after reduction
                b = jnp.asarray(0.45, D)
                R2 = QURotationOperator(b, S)
                m2 = stokes_matrix(kind, shape, 'rot', np.broadcast_to(0.45, shape))
                msum = stokes_matrix(kind, shape, 'rot', full + 0.45)
                for label, expr, ref in (('R(a) R(b)', R @ R2, msum), ('R(a) HWP', R @ H, mH @ mRt), ('polariser HWP', Pol @ H, mP),
                                         ('R(a).T R(b)', R.T @ R2, mRt @ m2), ('R(b) R(a).T', R2 @ R.T, m2 @ mRt)):
                    cmp(case, label, expr, ref)
                    cmp(case, label + ' reduced', expr.reduce(), ref)
                # factories
                f_h0 = HWPOperator.create(shape, D, kind)
                f_h = HWPOperator.create(shape, D, kind, angles=a)
                f_p0 = LinearPolarizerOperator.create(shape, D, kind)
                f_p = LinearPolarizerOperator.create(shape, D, kind, angles=a)
                f_r = QURotationOperator.create(shape, D, kind, angles=a)
                for label, op, ref in (('HWP.create()', f_h0, mH), ('HWP.create(angles)', f_h, mRt @ mH @ mR), ('polariser.create()', f_p0, mP),
                                       ('polariser.create(angles)', f_p, mP @ mR), ('rotation.create(angles)', f_r, mR)):
                    if not P.same_struct(op.in_structure(), S):
                        violations.append({'kind': 'factory-structure', 'case': case, 'detail': f'{label}: {op.in_structure()}'})
                        continue
                    cmp(case, label, op, ref)
                    cmp(case, label + ' reduced', op.reduce(), ref)
                nontrivial.add(json.dumps(case))
            else:
                a1 = jnp.asarray(ANGLES[shape][case['a1']], D)
                a2 = jnp.asarray(ANGLES[shape][case['a2']], D)
                R1, R2 = QURotationOperator(a1, S), QURotationOperator(a2, S)
                f1 = np.broadcast_to(np.asarray(a1, float), shape)
                f2 = np.broadcast_to(np.asarray(a2, float), shape)
                an = np.asarray(ANGLES[shape][case['a2']], dtype=np.dtype(D)) * 0.5 + 0.2   # NumPy storage (mutable): must never be updated in place
                an0 = an.copy()
                fn = np.broadcast_to(an0.astype(float), shape)
                Rn = QURotationOperator(an, S)
                Pol_ = LinearPolarizerOperator(S)
                ops = {'Rn': Rn, 'R1': R1, 'R2': R2, 'R1t': R1.T, 'R2t': R2.T, 'H': HWPOperator(S), 'Pol': Pol_, 'PolT': Pol_.T}
                refs = {'Rn': stokes_matrix(kind, shape, 'rot', fn), 'R1': stokes_matrix(kind, shape, 'rot', f1), 'R2': stokes_matrix(kind, shape, 'rot', f2),
                        'R1t': stokes_matrix(kind, shape, 'rot_t', f1), 'R2t': stokes_matrix(kind, shape, 'rot_t', f2),
                        'H': stokes_matrix(kind, shape, 'hwp', f1), 'Pol': pol_matrix(kind, shape), 'PolT': pol_matrix(kind, shape).T}
                ref = None
                for nme in case['chain']:
                    ref = refs[nme] if ref is None else ref @ refs[nme]
                comp = CompositionOperator([ops[nme] for nme in case['chain']])
                cmp(case, 'chain', comp, ref)
                with xstate.Timeout(60):
                    red = comp.reduce()
                cmp(case, 'chain reduced', red, ref)
                cmp(case, 'chain again after reduce()', comp, ref)   # reduce() must not have modified the operands
                compT = P.lib('transpose of the chain', lambda: comp.T)
                cmp(case, 'transposed chain', compT, ref.T)
                with xstate.Timeout(60):
                    cmp(case, 'transposed chain reduced', compT.reduce(), ref.T)
                if not np.array_equal(an, an0):
                    violations.append({'kind': 'operand-mutated', 'case': case, 'detail': f'the angle array passed by the caller was changed in place: {an0} -> {an}'})
                nops = len(red.operands) if isinstance(red, CompositionOperator) else 1
                if nops < len(case['chain']):
                    nontrivial.add(json.dumps(case))
        except P.LibError as e:
            violations.append({'kind': 'library-raises', 'case': case, 'detail': f'{e}\n{e.tb}'})
        except Exception as e:  # noqa: BLE001
            err = P.LibError('polarimetry', e)
            violations.append({'kind': 'library-raises', 'case': case, 'detail': f'{err}\n{err.tb}'})
    return {'n': len(cases), 'violations': violations, 'counters': counters, 'nontrivial': nontrivial, 'samples': cases[:1]}


def finalize(results, tier, seed):
    counters = collections.Counter()
    nontrivial = set()
    samples = []
    n = 0
    for name, r in results.items():
        counters.update(r['counters'])
        nontrivial |= {name[-3:] + k for k in r['nontrivial']}
        samples += r['samples'][:1]
        n += r['n']
    cov = {'evaluations': n, 'distinct_nontrivial': len(nontrivial), 'samples': samples, 'exhaustive': True, 'matrix_comparisons': counters['comparisons'],
           'rule': 'operator cases: kind x shape x angle array (all non-trivial: ~30 matrices compared each); chain cases: every typed chain over the '
                   '6 symbols (non-trivial = reduce() shortened it); per 64-bit mode'}
    return {'coverage': cov, 'violations': [], 'assumptions': ['cos/sin compared within 2e-5 (float32) / 1e-12 (float64)']}
