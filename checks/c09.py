"""C09 - all Toeplitz evaluation methods compute the same banded product.

Grid: n in 1..N, K in 1..Kmax (K > n included), methods {dense, direct, fft, overlap_save}, fft_size in {default} u
[2K-1, 2K+3] u {next powers of two}, batch/broadcast layouts of (input, band values), float32/float64, 64-bit mode off/on.
Reference (loops): T[i,j] = band[|i-j|] if |i-j| < K else 0, independently per batch row.
Oracle: mv on every basis vector (one call through the legitimate broadcast layout x = eye(n) for unbatched bands, one
call per basis vector for batched ones), as_matrix() == block-diagonal of the per-row matrices, op.T is op, output shape
and dtype == input's, illegal methods / FFT sizes rejected, every fft_size >= 2K-1 accepted.
"""
from __future__ import annotations

import collections
import itertools
import json

PROPERTY = 'C09'
LEVEL = 'exploration'
TARGET = 'checks.c09:run'
METHODS = ['dense', 'direct', 'fft', 'overlap_save']
BAND = [4.0, -1.0, 0.5, 2.0, -0.25, 1.0, 3.0, -2.0, 0.75, -0.5, 1.5, 0.125]
LAYOUTS = {  # name -> (batch shape of x, batch shape of band)
    'vec': ([], []), 'x2': ([2], []), 'x2b2': ([2], [2]), 'x2b1': ([2], [1]), 'x32b2': ([3, 2], [2]), 'x32b31': ([3, 2], [3, 1]),
}


def next_pow2(k):
    p = 1
    while p < k:
        p *= 2
    return p


def fft_sizes(K, tier):
    lo = 2 * K - 1
    s = {None, lo, lo + 1, lo + 2, next_pow2(lo), 2 * next_pow2(lo)}
    if tier == 'thorough' or K <= 2:
        s |= {lo + 3, lo + 4, lo + 5, 4 * next_pow2(lo)}
    return sorted(s, key=lambda v: (v is not None, v))


def plan(tier, seed):
    N, Kmax = (7, 4) if tier == 'quick' else (12, 8)
    layouts = ['vec', 'x2b2'] if tier == 'quick' else list(LAYOUTS)
    cases = []
    for n, K, lay in itertools.product(range(1, N + 1), range(1, Kmax + 1), layouts):
        if tier == 'quick' and lay != 'vec' and (n + K) % 2:
            continue
        if tier == 'thorough' and lay not in ('vec', 'x2b2') and (n + K) % 3:
            continue
        for m in METHODS:
            for f in (fft_sizes(K, tier) if m == 'overlap_save' else [None]):
                cases.append({'n': n, 'K': K, 'lay': lay, 'method': m, 'fft': f, 'dt': 'f32'})
    # far more band values than samples (offsets beyond n + 2), whatever the tier's grid
    for n, K in ((4, 7), (4, 8), (5, 8), (5, 9), (6, 9), (2, 6)):
        if not any(c['n'] == n and c['K'] == K for c in cases):
            cases += [{'n': n, 'K': K, 'lay': 'vec', 'method': m, 'fft': None, 'dt': 'f32'} for m in METHODS]
    for c in cases:   # one length per (K, layout, method, FFT size): the operator is also built inside a jitted function
        if c['n'] == min(c['K'] + 2, N):
            c['jit'] = True
    rej = [{'reject': 'method', 'method': m} for m in ('overlap_add', 'toeplitz', '', 'DENSE')]
    for K in range(1, Kmax + 1):
        for lay in ('vec', 'x2b2', 'x32b31'):
            rej += [{'reject': 'fft_small', 'K': K, 'lay': lay, 'fft': f} for f in range(max(1, 2 * K - 4), 2 * K - 1)]
            rej += [{'reject': 'fft_ok', 'K': K, 'lay': lay, 'fft': f} for f in range(2 * K - 1, 2 * K + 3)]
            rej += [{'reject': 'fft_nonoverlap', 'K': K, 'lay': lay, 'method': m} for m in ('dense', 'direct', 'fft')]
    c64 = [dict(c, dt=d) for c in cases for d in ('f32', 'f64') if tier == 'thorough' or (c['n'] + c['K']) % 3 == 0]
    return [
        {'name': 'x32', 'target': TARGET, 'x64': False, 'cases': cases, 'chunk': 3},
        {'name': 'x64', 'target': TARGET, 'x64': True, 'cases': c64, 'chunk': 3},
        {'name': 'reject', 'target': TARGET, 'x64': False, 'cases': rej, 'chunk': 10},
    ]


def ref_matrix(n, band):
    import numpy as np

    K = len(band)
    M = np.zeros((n, n))
    for i in range(n):
        for j in range(n):
            if abs(i - j) < K:
                M[i, j] = band[abs(i - j)]
    return M


def bands_for(lay, K):
    """numpy band array of shape band_batch + (K,): distinct rows."""
    import numpy as np

    bshape = LAYOUTS[lay][1]
    base = np.array(BAND[:K])
    if not bshape:
        return base
    out = np.zeros(tuple(bshape) + (K,))
    for idx in itertools.product(*[range(d) for d in bshape]):
        r = sum((i + 1) * (3 ** p) for p, i in enumerate(idx))
        out[idx] = np.roll(base, r % K) * (1 + 0.5 * (r % 3)) if K > 1 else base * (1 + r)
    return out


def run(phase, cases, ctx):
    import jax
    import jax.numpy as jnp
    import numpy as np
    import scipy.linalg

    from furax.operators.toeplitz import SymmetricBandToeplitzOperator as T
    from mc import probe as P

    violations = []
    counters = collections.Counter()
    nontrivial = set()
    for case in cases:
        if 'reject' in case:
            kind = case['reject']
            D = jnp.float32
            try:
                if kind == 'method':
                    T(jnp.asarray(BAND[:2], D), jax.ShapeDtypeStruct((5,), D), method=case['method'])
                    violations.append({'kind': 'illegal-method-accepted', 'case': case, 'detail': repr(case['method'])})
                else:
                    band = jnp.asarray(bands_for(case['lay'], case['K']), D)
                    xs = tuple(LAYOUTS[case['lay']][0]) + (6,)
                    if kind == 'fft_nonoverlap':
                        T(band, jax.ShapeDtypeStruct(xs, D), method=case['method'], fft_size=64)
                        violations.append({'kind': 'fft_size-accepted-by-non-overlap-method', 'case': case, 'detail': case['method']})
                    elif kind == 'fft_small':
                        T(band, jax.ShapeDtypeStruct(xs, D), method='overlap_save', fft_size=case['fft'])
                        violations.append({'kind': 'too-small-fft_size-accepted', 'case': case, 'detail': f'fft_size={case["fft"]} < 2K-1 = {2 * case["K"] - 1}'})
                    else:
                        T(band, jax.ShapeDtypeStruct(xs, D), method='overlap_save', fft_size=case['fft'])
                        counters['admissible_fft_accepted'] += 1
            except ValueError as e:
                if kind == 'fft_ok':
                    violations.append({'kind': 'admissible-fft_size-rejected', 'case': case,
                                       'detail': f'fft_size={case["fft"]} >= 2K-1 = {2 * case["K"] - 1} with band values of shape {bands_for(case["lay"], case["K"]).shape}: {e}'})
                else:
                    counters['rejections'] += 1
            except Exception as e:  # noqa: BLE001
                violations.append({'kind': 'wrong-exception', 'case': case, 'detail': f'{type(e).__name__}: {e}'})
            nontrivial.add(json.dumps(case))
            continue
        n, K, lay = case['n'], case['K'], case['lay']
        D = {'f32': jnp.float32, 'f64': jnp.float64}[case['dt']]
        f64 = case['dt'] == 'f64'
        tol = (1e-9 if f64 else 1e-4) if case['method'] in ('fft', 'overlap_save') else (1e-12 if f64 else 1e-6)
        bands = bands_for(lay, K)
        xb, bb = LAYOUTS[lay]
        counters['operators'] += 1
        try:
            kw = {'method': case['method']}
            if case['fft'] is not None:
                kw['fft_size'] = case['fft']
            full_b = np.broadcast_to(bands, np.broadcast_shapes(tuple(xb), tuple(bb)) + (K,))   # band batch axes broadcast against the input's
            rows = full_b.reshape(-1, K)
            refs = [ref_matrix(n, r) for r in rows]
            if not bb:
                # legitimate broadcast layout: x = eye(n) (n "batch rows"), band (K,) -> row r of the result is T e_r
                op = T(jnp.asarray(bands, D), jax.ShapeDtypeStruct(tuple(xb) + (n, n), D), **kw)
                x = np.broadcast_to(np.eye(n), tuple(xb) + (n, n))
                y = P.lib('mv', op.mv, jnp.asarray(x, D))
                got = np.asarray(y)
                if got.shape != x.shape or got.dtype != np.dtype(D):
                    violations.append({'kind': 'shape-or-dtype', 'case': case, 'detail': f'input {x.shape} {np.dtype(D)}, output {got.shape} {got.dtype}'})
                    continue
                mats = got.reshape(-1, n, n)
                ok = all(P.close(m.T, refs[0], tol) for m in mats)
                if not ok:
                    violations.append({'kind': 'wrong-product', 'case': case, 'detail': f'T from mv = {P.mat_summary(mats[0].T, 49)} but reference {P.mat_summary(refs[0], 49)}'})
                    continue
                op1 = T(jnp.asarray(bands, D), jax.ShapeDtypeStruct(tuple(xb) + (n,), D), **kw)
            else:
                op1 = T(jnp.asarray(bands, D), jax.ShapeDtypeStruct(tuple(xb) + (n,), D), **kw)
                cols = []
                bad = False
                for j in range(n):
                    x = np.zeros(tuple(xb) + (n,))
                    x[..., j] = 1
                    got = np.asarray(P.lib('mv', op1.mv, jnp.asarray(x, D)))
                    if got.shape != x.shape or got.dtype != np.dtype(D):
                        violations.append({'kind': 'shape-or-dtype', 'case': case, 'detail': f'input {x.shape} {np.dtype(D)}, output {got.shape} {got.dtype}'})
                        bad = True
                        break
                    cols.append(got.reshape(-1, n))
                if bad:
                    continue
                for r, ref in enumerate(refs):
                    M = np.stack([c[r] for c in cols], axis=1)
                    if not P.close(M, ref, tol):
                        violations.append({'kind': 'wrong-product', 'case': case, 'detail': f'batch row {r}: {P.mat_summary(M, 49)} but reference {P.mat_summary(ref, 49)}'})
                        bad = True
                        break
                if bad:
                    continue
            # the operator BUILT inside a jitted function from traced band values, and the same input array applied twice
            if case['method'] != 'dense' or n <= 6:
                xs1 = tuple(xb) + (n,)
                xv = (np.arange(int(np.prod(xs1))) % 5 - 2.0).reshape(xs1)
                xj = jnp.asarray(xv, D)
                y_a = np.asarray(P.lib('mv', op1.mv, xj))
                y_b = np.asarray(P.lib('second mv on the same input array', op1.mv, xj))
                y_j = y_a if not case.get('jit') else np.asarray(P.lib('operator built under jax.jit from traced band values',
                                       jax.jit(lambda b_, x_: T(b_, jax.ShapeDtypeStruct(xs1, D), **kw).mv(x_)), jnp.asarray(bands, D), xj))
                want_rows = [r @ v for r, v in zip(refs * (int(np.prod(xs1[:-1])) // len(refs) if len(refs) < int(np.prod(xs1[:-1]) or 1) else 1), xv.reshape(-1, n))]
                want_y = np.array(want_rows).reshape(xs1)
                for label, y in (('first application', y_a), ('second application to the same array', y_b), ('built under jit', y_j)):
                    if y.shape != want_y.shape or not P.close(y, want_y, tol):
                        violations.append({'kind': 'wrong-product', 'case': case, 'detail': f'{label}: {y.ravel()[:6]} but reference {want_y.ravel()[:6]}'})
                        break
                if not np.array_equal(np.asarray(xj), xv.astype(np.asarray(xj).dtype)):
                    violations.append({'kind': 'input-modified', 'case': case, 'detail': 'the input array differs after mv'})
            A = np.asarray(P.lib('as_matrix', op1.as_matrix), float)
            want = scipy.linalg.block_diag(*refs) if bb or xb else refs[0]
            if not bb and xb:
                want = scipy.linalg.block_diag(*refs)
            if A.shape != want.shape or not P.close(A, want, 1e-12 if f64 else 1e-6):
                violations.append({'kind': 'as_matrix', 'case': case, 'detail': f'as_matrix shape {A.shape} vs {want.shape}; max diff {P.maxdiff(A, want):.4g}'})
            if op1.T is not op1:
                violations.append({'kind': 'transpose-not-self', 'case': case, 'detail': type(op1.T).__name__})
            if not P.same_struct(op1.out_structure(), op1.in_structure()):
                violations.append({'kind': 'structure', 'case': case, 'detail': f'{op1.out_structure()}'})
            nontrivial.add(json.dumps(case))
        except P.LibError as e:
            violations.append({'kind': 'library-raises', 'case': case, 'detail': f'{e}\n{e.tb}'})
        except ValueError as e:
            violations.append({'kind': 'constructor-raises', 'case': case, 'detail': f'{type(e).__name__}: {e}'})
    return {'n': len(cases), 'violations': violations, 'counters': counters, 'nontrivial': nontrivial, 'samples': cases[:1]}


def finalize(results, tier, seed):
    counters = collections.Counter()
    nontrivial = set()
    samples = []
    n = 0
    for name, r in results.items():
        counters.update(r['counters'])
        nontrivial |= {name + k for k in r['nontrivial']}
        samples += r['samples'][:1]
        n += r['n']
    cov = {'evaluations': n, 'distinct_nontrivial': len(nontrivial), 'samples': samples, 'exhaustive': True,
           'operators': counters['operators'], 'rejections': counters['rejections'], 'admissible_fft_accepted': counters['admissible_fft_accepted'],
           'rule': 'one case = (n, K, layout, method, fft_size, dtype, 64-bit mode); non-trivial = the operator was built and its full matrix '
                   '(all basis vectors, all batch rows) compared with the loop reference'}
    return {'coverage': cov, 'violations': [], 'assumptions': ['FFT methods compared within 1e-4 (float32) / 1e-9 (float64) relative; band values are dyadic']}
