"""C05 - declared input/output structures are honest.

For every specimen, composite, transpose, closed-form inverse and reduced form, in both 64-bit modes and for leaf dtypes
float32, float64 (mode on) and mixed-dtype pytrees (a float32 block next to a float64 block):
  out_structure() (tree, shapes, dtypes) == structure of mv(x) for x = zeros and ones of in_structure();
  in_size()/out_size() == element counts; in/out_promoted_dtype == result_type of the leaves;
  structures of composites are those implied by their parts; A.T swaps them; reduce() keeps them.
"""
from __future__ import annotations

PROPERTY = 'C05'
LEVEL = 'exploration'
TARGET = 'checks.c05:run'


def plan(tier, seed):
    from mc import universe as U

    phases = _plan(tier, seed, U)
    for p in phases:   # the property excludes operator parameters wider than the data dtype
        p['cases'] = [dict(c, xf=True) if 'b' in c else c for c in p['cases'] if 'widening' not in c['a'] and 'widening' not in str(c.get('b'))]
    return phases


def _plan(tier, seed, U):
    return [
        {'name': 'x32', 'target': TARGET, 'x64': False, 'cases': U.cases(tier, ('f32',))},
        {'name': 'x64_f32', 'target': TARGET, 'x64': True, 'cases': [c for c in U.cases(tier, ('f32',)) if tier == 'thorough' or 'b' not in c], 'chunk': 5},
        {'name': 'x64_f64', 'target': TARGET, 'x64': True, 'cases': U.cases(tier, ('f64',))},
        {'name': 'x64_mixed', 'target': TARGET, 'x64': True, 'cases': U.mixed_cases()},
    ]


def honest(op, label):
    import jax
    import jax.numpy as jnp
    import numpy as np

    from mc import probe as P

    probs = []
    ins = P.lib('in_structure', op.in_structure)
    outs = P.lib('out_structure', op.out_structure)
    declared = P.ssig(outs)
    for fill in (0, 1):
        x = jax.tree.map(lambda l: jnp.full(l.shape, fill, l.dtype), ins)
        y = P.lib('mv', op.mv, x)
        actual = P.actual_struct_sig(y)
        if actual != declared:
            probs.append(('dishonest-out-structure', f'{label}: out_structure() declares {declared} but mv returns {actual}'))
            break
    n_in = sum(int(np.prod(l.shape)) for l in jax.tree.leaves(ins))
    n_out = sum(int(np.prod(l.shape)) for l in jax.tree.leaves(outs))
    if P.lib('in_size', op.in_size) != n_in or P.lib('out_size', op.out_size) != n_out:
        probs.append(('sizes', f'{label}: in_size/out_size = {op.in_size()}/{op.out_size()} but structures hold {n_in}/{n_out}'))
    for which, struct in (('in', ins), ('out', outs)):
        leaves = jax.tree.leaves(struct)
        want = jnp.result_type(*leaves)
        got = P.lib(f'{which}_promoted_dtype', lambda: getattr(op, f'{which}_promoted_dtype'))
        if np.dtype(got) != np.dtype(want):
            probs.append(('promoted-dtype', f'{label}: {which}_promoted_dtype = {got}, leaves promote to {want}'))
    return probs


def oracle(desc, op, exact):
    from mc import probe as P
    from mc import universe as U

    probs = honest(op, 'A')
    A = U.build(desc['a'], desc['dt'])
    form = desc['form']
    if 'b' in desc:
        B = U.build(desc['b'], desc.get('dt_b', desc['dt']))
        if form in ('A@B', '3*(A@B)'):
            if not P.same_struct(op.in_structure(), B.in_structure()) or not P.same_struct(op.out_structure(), A.out_structure()):
                probs.append(('composite-structure', f'{form}: {op.in_structure()} -> {op.out_structure()}'))
        if form in ('A+B', 'A-B'):
            if not P.same_struct(op.in_structure(), A.in_structure()) or not P.same_struct(op.out_structure(), A.out_structure()):
                probs.append(('composite-structure', f'{form}: {op.in_structure()} -> {op.out_structure()}'))
        if form == 'diag[A,B]':
            if not P.same_struct(op.in_structure(), [A.in_structure(), B.in_structure()]) or not P.same_struct(op.out_structure(), [A.out_structure(), B.out_structure()]):
                probs.append(('composite-structure', f'{form}: {op.in_structure()} -> {op.out_structure()}'))
        if form == 'row{A,B}':
            if not P.same_struct(op.in_structure(), {'q': A.in_structure(), 'p': B.in_structure()}) or not P.same_struct(op.out_structure(), A.out_structure()):
                probs.append(('composite-structure', f'{form}: {op.in_structure()} -> {op.out_structure()}'))
        if form == 'col(A,B)':
            if not P.same_struct(op.out_structure(), (A.out_structure(), B.out_structure())) or not P.same_struct(op.in_structure(), A.in_structure()):
                probs.append(('composite-structure', f'{form}: {op.in_structure()} -> {op.out_structure()}'))
    notr = desc['a'] in U.NO_TRANSPOSE or desc.get('b') in U.NO_TRANSPOSE
    if not notr:
        T = P.lib('transpose', lambda: op.T)
        if not P.same_struct(T.in_structure(), op.out_structure()) or not P.same_struct(T.out_structure(), op.in_structure()):
            probs.append(('transpose-structure', f'A.T: {T.in_structure()} -> {T.out_structure()}'))
        probs += honest(T, 'A.T')
    R = P.lib('reduce', op.reduce)
    if not P.same_struct(R.in_structure(), op.in_structure()) or not P.same_struct(R.out_structure(), op.out_structure()):
        probs.append(('reduce-structure', f'reduce(): {R.in_structure()} -> {R.out_structure()} instead of {op.in_structure()} -> {op.out_structure()}'))
    elif R is not op:
        probs += honest(R, 'A.reduce()')
    # closed-form inverses
    from furax._base.core import InverseOperator

    if form == 'single' and P.same_struct(op.in_structure(), op.out_structure()) and not isinstance(op, InverseOperator):
        try:
            inv = op.I
        except Exception:  # noqa: BLE001
            inv = None
        if inv is not None and not isinstance(inv, InverseOperator):
            if not P.same_struct(inv.in_structure(), op.out_structure()) or not P.same_struct(inv.out_structure(), op.in_structure()):
                probs.append(('inverse-structure', f'A.I: {inv.in_structure()} -> {inv.out_structure()}'))
            probs += honest(inv, 'A.I')
    return probs, True


def run(phase, cases, ctx):
    from mc import unirun

    return unirun.run(cases, oracle)


def finalize(results, tier, seed):
    from mc import unirun

    cov = unirun.coverage(results, 'one case = a specimen or an ordered pair (all composite forms) per dtype configuration '
                          '(f32 / f64 / f32-next-to-f64) and 64-bit mode; every case is non-trivial (a declaration is compared with a computed value)')
    return {'coverage': cov, 'violations': [], 'assumptions': ['operator parameters no wider than the data dtype (as the property states)', 'weak types ignored']}
