"""C14 - einsum block operator and its rewritten-subscript transpose agree.

EVERY two-operand explicit subscript string `L,R->O` with L in words of length 2-3, R and O in words of length 1-2 over
{i,j,k} (repeated letters allowed), each part optionally carrying `...` in front, behind or (L only) in the middle:
171 x 36 x 36 = 221 616 strings (thorough); quick restricts R and O to words over {i,j} with no or a leading ellipsis.
Two size assignments: all letters 2 (a wrong relabelling then yields wrong NUMBERS, not a shape error) and i,j,k = 2,3,4.
numpy.einsum decides validity and the value.  Oracle: mv == numpy.einsum; for `.T`: a ValueError (at .T, or any
exception when the transposed operator is first applied) counts as REJECTED; otherwise probe(A.T) == probe(A)^T - a
silent mismatch is the violation; the documented family (one contracted and one free block letter, no repeated letter
inside a part, R equal to O up to that letter swap) must NOT be rejected.  Shared and per-leaf blocks on pytrees.
"""
from __future__ import annotations

import collections
import itertools
import json

PROPERTY = 'C14'
LEVEL = 'exploration'
TARGET = 'checks.c14:run'
LETTERS = 'ijk'


def words(alpha, lo, hi):
    return [''.join(w) for n in range(lo, hi + 1) for w in itertools.product(alpha, repeat=n)]


def ell(w, mid=False, kinds=('', 'front', 'back')):
    out = []
    if '' in kinds:
        out.append(w)
    if 'front' in kinds:
        out.append('...' + w)
    if 'back' in kinds:
        out.append(w + '...')
    if mid and len(w) >= 2:
        out += [w[:p] + '...' + w[p:] for p in range(1, len(w))]
    return out


def parts(tier):
    Ls = [e for w in words(LETTERS, 2, 3) for e in ell(w, True)]
    if tier == 'thorough':
        Rs = [e for w in words(LETTERS, 1, 2) for e in ell(w)]
    else:
        Rs = [e for w in words('ij', 1, 2) for e in ell(w, kinds=('', 'front'))] + ['kj', 'k', 'j...', 'ij...']
    Os = list(Rs) if tier == 'thorough' else [e for w in words('ij', 1, 2) for e in ell(w, kinds=('', 'front'))]
    return Ls, Rs, Os


def plan(tier, seed):
    Ls, Rs, Os = parts(tier)
    cases = [{'L': L, 'sizes': s} for L in Ls for s in ('222', '234') if tier == 'thorough' or s == '222' or '...' not in L]
    tree = [{'tree': sub, 'extra': e} for e in ([2], [2, 3], [2, 1, 2]) for sub in ('ij,j->i', 'ij...,j...->i...', '...ij,...j->...i', 'ikj,kj->ki', 'hij...,hj...->hi...'.replace('h', 'k'), 'ji,j->i', 'kij,kj->ki', 'i j, j -> i', 'k i j, k j -> k i', ' ij , j->i ', 'i j ..., j ... -> i ...')]
    # many leaves of one shape sharing one block array that carries ellipsis axes of its own
    tree += [{'many': n, 'sub': sub, 'bell': b} for n in (7, 8, 9, 12) for sub in ('ij...,j...->i...', 'kij...,kj...->ki...', '...ij,...j->...i') for b in ([], [8], [9], [2, 8])]
    return [
        {'name': 'strings', 'target': TARGET, 'x64': False, 'cases': cases, 'chunk': 1, 'ctx': {'nR': len(Rs), 'nO': len(Os)}},
        {'name': 'trees', 'target': TARGET, 'x64': False, 'cases': tree, 'chunk': 1},
    ]


def in_family(L, R, O):
    """The documented family: one contracted and one free block letter, no repeated letter inside a part, R equal to O up
    to that letter swap, compatible ellipsis placement."""
    cl, cr, co = L.replace('...', ''), R.replace('...', ''), O.replace('...', '')
    for p in (cl, cr, co):
        if len(set(p)) != len(p):
            return False
    if set(cl) != set(cr) | set(co):
        return False
    contracted = (set(cl) & set(cr)) - set(co)
    free = (set(cl) & set(co)) - set(cr)
    if len(contracted) != 1 or len(free) != 1:
        return False
    c, f = next(iter(contracted)), next(iter(free))
    return O.replace(f, c) == R


def shape_of(sub, sizes, extra):
    core = sub.replace('...', '')
    sh = [sizes[c] for c in core]
    if '...' in sub:
        p = sub.index('...')
        sh = sh[:p] + list(extra) + sh[p:]
    return tuple(sh)


def run(phase, cases, ctx):
    import jax
    import jax.numpy as jnp
    import numpy as np

    from furax._base.dense import DenseBlockDiagonalOperator
    from mc import probe as P

    f32 = jnp.float32
    violations = []
    counters = collections.Counter()
    nontrivial = set()
    if phase == 'trees':
        for case in cases:
            if 'many' in case:
                sub = case['sub']
                L, rest = sub.split(',')
                R, O = rest.split('->')
                sizes = {'i': 2, 'j': 3, 'k': 2}
                bell = tuple(case['bell'])
                bs, xs = shape_of(L, sizes, bell), shape_of(R, sizes, bell)
                B = (np.arange(int(np.prod(bs))) % 11 * 1.0 - 3).reshape(bs).astype(np.float32)
                xl = [((np.arange(int(np.prod(xs))) * (q + 2)) % 13 * 1.0 - 5).reshape(xs).astype(np.float32) for q in range(case['many'])]
                try:
                    op = DenseBlockDiagonalOperator(jnp.asarray(B), [jax.ShapeDtypeStruct(xs, f32)] * case['many'], sub)
                    ys = op.mv([jnp.asarray(x) for x in xl])
                    for q, (y, x) in enumerate(zip(ys, xl)):
                        w = np.einsum(sub, B, x)
                        if np.asarray(y).shape != w.shape or not np.array_equal(np.asarray(y), w):
                            violations.append({'kind': 'tree-mv', 'case': case, 'detail': f'leaf {q} of {case["many"]}: {np.asarray(y).ravel()[:6]} (shape {np.asarray(y).shape}) vs numpy.einsum {w.ravel()[:6]} (shape {w.shape})'})
                            break
                except Exception as e:  # noqa: BLE001
                    err = P.LibError('dense operator on a pytree of many leaves', e)
                    violations.append({'kind': 'library-raises', 'case': case, 'detail': f'{err}\n{err.tb}'})
                nontrivial.add(json.dumps(case))
                continue
            sub = case['tree']
            L, rest = sub.replace(' ', '').split(',')
            R, O = rest.split('->')
            sizes = {'i': 2, 'j': 3, 'k': 2}
            extra = tuple(case.get('extra', [2]))
            # the block carries only its named axes (its ellipsis stands for no axis); the leaves carry `extra` batch axes
            bs, xs = shape_of(L, sizes, ()), shape_of(R, sizes, extra)
            B1 = (np.arange(int(np.prod(bs))) * 1.0 + 1).reshape(bs).astype(np.float32)
            B2 = (np.arange(int(np.prod(bs))) * -2.0 + 7).reshape(bs).astype(np.float32)
            x1 = (np.arange(int(np.prod(xs))) * 2.0 + 3).reshape(xs).astype(np.float32)
            x2 = (np.arange(int(np.prod(xs))) * -1.0 + 5).reshape(xs).astype(np.float32)
            st = {'u': jax.ShapeDtypeStruct(xs, f32), 'v': jax.ShapeDtypeStruct(xs, f32)}
            xin = {'u': jnp.asarray(x1), 'v': jnp.asarray(x2)}
            for label, blocks, refs in (('shared', jnp.asarray(B1), {'u': np.einsum(sub, B1, x1), 'v': np.einsum(sub, B1, x2)}),
                                        ('per-leaf', {'u': jnp.asarray(B1), 'v': jnp.asarray(B2)}, {'u': np.einsum(sub, B1, x1), 'v': np.einsum(sub, B2, x2)})):
                try:
                    op = DenseBlockDiagonalOperator(blocks, st, sub)
                    y = op.mv(xin)
                    for k in ('u', 'v'):
                        if not np.array_equal(np.asarray(y[k]), refs[k]):
                            violations.append({'kind': 'tree-mv', 'case': case, 'detail': f'{label} blocks, leaf {k}: {np.asarray(y[k]).ravel()[:6]} vs {refs[k].ravel()[:6]}'})
                    # one and the same array object as both leaves: the result may depend on the values only
                    shared_x = jnp.asarray(x1)
                    ys = op.mv({'u': shared_x, 'v': shared_x})
                    wants = {'u': np.einsum(sub, B1, x1), 'v': np.einsum(sub, B1 if label == 'shared' else B2, x1)}
                    for k in ('u', 'v'):
                        if not np.array_equal(np.asarray(ys[k]), wants[k]):
                            violations.append({'kind': 'tree-mv-same-array-in-two-leaves', 'case': case, 'detail': f'{label} blocks, leaf {k}: {np.asarray(ys[k]).ravel()[:6]} vs {wants[k].ravel()[:6]}'})
                    M, Mt = P.probe(op, cache=False).M, P.probe(op.T, cache=False).M
                    if not np.array_equal(Mt, M.T):
                        violations.append({'kind': 'tree-transpose', 'case': case, 'detail': f'{label} blocks: probe(A.T) != probe(A)^T'})
                except Exception as e:  # noqa: BLE001
                    err = P.LibError('dense operator on pytree', e)
                    violations.append({'kind': 'library-raises', 'case': case, 'detail': f'{label}: {err}\n{err.tb}'})
            # block values wider than the leaf dtype: the result must be numpy.einsum's, in value and dtype kind
            if case.get('extra', [2]) == [2]:
                # (float32 and complex64 blocks on the same float32 leaf, in either order: two operators that differ in nothing
                # but the dtype of their blocks)
                same_leaf = ((np.float32, np.float32), (np.complex64, np.float32))
                for bdt, xdt in ((np.float32, np.int32),) + (same_leaf if len(sub) % 2 else same_leaf[::-1]) + ((np.float32, np.float16),):
                    Bm = (B1 * (0.5 + 0.25j) if bdt == np.complex64 else B1 * 0.5 + 0.25).astype(bdt)
                    xm = (x1 * 3 - 4).astype(xdt)
                    try:
                        opm = DenseBlockDiagonalOperator(jnp.asarray(Bm), jax.ShapeDtypeStruct(xs, xdt), sub)
                        got = np.asarray(opm.mv(jnp.asarray(xm)))
                        want = np.einsum(sub, Bm, xm)
                        if got.dtype.kind != np.asarray(want).dtype.kind or got.shape != want.shape or not np.allclose(got, want, rtol=2e-3 if xdt == np.float16 else 1e-5):
                            violations.append({'kind': 'mixed-dtype-mv', 'case': case, 'detail': f'blocks {np.dtype(bdt)} x leaf {np.dtype(xdt)}: got {got.dtype} {got.ravel()[:4]}, numpy.einsum {want.dtype} {np.asarray(want).ravel()[:4]}'})
                        declared = opm.out_structure()
                        if tuple(declared.shape) != got.shape or np.dtype(declared.dtype) != got.dtype:
                            violations.append({'kind': 'mixed-dtype-out-structure', 'case': case,
                                               'detail': f'blocks {np.dtype(bdt)} x leaf {np.dtype(xdt)}: out_structure() declares {declared} but mv returns {got.dtype}{got.shape}'})
                    except Exception as e:  # noqa: BLE001
                        err = P.LibError('dense operator with mixed dtypes', e)
                        violations.append({'kind': 'library-raises', 'case': case, 'detail': f'{err}\n{err.tb}'})
            nontrivial.add(json.dumps(case))
        return {'n': len(cases), 'violations': violations, 'counters': counters, 'nontrivial': nontrivial, 'samples': cases[:1]}

    Ls, Rs, Os = parts(ctx['tier'])
    for case in cases:
        L = case['L']
        sizes = {'i': 2, 'j': 2, 'k': 2} if case['sizes'] == '222' else {'i': 2, 'j': 3, 'k': 4}
        bs = shape_of(L, sizes, (2,))
        B = (np.arange(int(np.prod(bs))) * 1.0 + 1).reshape(bs).astype(np.float32)
        Bj = jnp.asarray(B)
        only = case.get('only')
        for R in Rs:
            xs = shape_of(R, sizes, (2,))
            x = (np.arange(int(np.prod(xs))) * 2.0 + 3).reshape(xs).astype(np.float32)
            for O in Os:
                sub = f'{L},{R}->{O}'
                if only is not None and sub != only:
                    continue
                counters['strings'] += 1
                one = dict(case, only=sub)
                try:
                    ref = np.einsum(sub, B, x)
                except Exception:  # noqa: BLE001
                    counters['numpy_invalid'] += 1
                    continue
                try:
                    op = DenseBlockDiagonalOperator(Bj, jax.ShapeDtypeStruct(xs, f32), sub)
                    got = np.asarray(op.mv(jnp.asarray(x)))
                except Exception as e:  # noqa: BLE001
                    counters['construction_or_mv_raises'] += 1
                    if in_family(L, R, O):
                        violations.append({'kind': 'family-mv-raises', 'case': one, 'detail': f'{type(e).__name__}: {e}'})
                    continue
                if got.shape != ref.shape or not np.array_equal(got, ref):
                    violations.append({'kind': 'mv-differs-from-einsum', 'case': one, 'detail': f'{got.ravel()[:6]} vs {ref.ravel()[:6]}'})
                    continue
                counters['mv_ok'] += 1
                nontrivial.add(sub + case['sizes'])
                fam = in_family(L, R, O)
                try:
                    opT = op.T
                except ValueError as e:
                    counters['T_rejected'] += 1
                    if fam:
                        violations.append({'kind': 'family-transpose-rejected', 'case': one, 'detail': f'{sub}: {e}'})
                    else:
                        try:   # asking again must be rejected again (the answer may not depend on earlier requests)
                            t2 = op.T
                            violations.append({'kind': 'rejection-not-repeatable', 'case': one, 'detail': f'{sub}: first .T raised, second returned subscripts {getattr(t2, "subscripts", "?")}'})
                        except ValueError:
                            pass
                    continue
                except Exception as e:  # noqa: BLE001
                    violations.append({'kind': 'transpose-wrong-exception', 'case': one, 'detail': f'{type(e).__name__}: {e}'})
                    continue
                try:
                    M = P.probe(op, cache=False).M
                    MT = P.probe(opT, cache=False).M
                except P.LibError as e:
                    counters['T_rejected_at_first_use'] += 1
                    if fam:
                        violations.append({'kind': 'family-transpose-rejected', 'case': one, 'detail': f'{sub} -> {getattr(opT, "subscripts", "?")}: {e}'})
                    continue
                # einsum is bilinear: as a JAX function of the operator (its blocks are its only arrays) the tangent of op.mv(x)
                # along dB is einsum(sub, dB, x), and likewise through op.T - differentiating with respect to the operator
                if fam or counters['T_exact'] % 8 == 0:
                    dB = jnp.asarray(((np.arange(B.size) % 3) - 1.0).reshape(B.shape).astype(np.float32))
                    try:
                        dop = jax.tree.map(lambda l: dB if l.shape == dB.shape else jnp.zeros_like(l), op)
                        t = np.asarray(jax.jvp(lambda o: o.mv(jnp.asarray(x)), (op,), (dop,))[1])
                        yv = (np.arange(ref.size) % 4 + 1.0).reshape(ref.shape).astype(np.float32)
                        dopT = jax.tree.map(lambda l: dB if l.shape == dB.shape else jnp.zeros_like(l), opT)
                        tT = np.asarray(jax.jvp(lambda o: o.mv(jnp.asarray(yv)), (opT,), (dopT,))[1])
                    except Exception:  # noqa: BLE001 - differentiation with respect to the operator is not promised to be supported
                        counters['block_tangent_unsupported'] += 1
                    else:
                        counters['block_tangents'] += 1
                        wt = np.einsum(sub, np.asarray(dB), x)
                        wT = np.einsum(opT.subscripts, np.asarray(dB), yv) if np.array_equal(MT, M.T) and MT.shape == M.T.shape else tT
                        if t.shape != wt.shape or not np.array_equal(t, wt):
                            violations.append({'kind': 'not-einsum-in-the-blocks', 'case': one, 'detail': f'{sub}: tangent of op.mv(x) along dB is {t.ravel()[:6]}, einsum(sub, dB, x) = {wt.ravel()[:6]}'})
                        elif tT.shape != np.shape(wT) or not np.array_equal(tT, wT):
                            violations.append({'kind': 'transpose-not-einsum-in-the-blocks', 'case': one, 'detail': f'{sub}: tangent of op.T.mv(y) along dB is {tT.ravel()[:6]}, expected {np.asarray(wT).ravel()[:6]}'})
                if MT.shape == M.T.shape and np.array_equal(MT, M.T):
                    counters['T_exact'] += 1
                    if fam:
                        counters['family_T_exact'] += 1
                else:
                    violations.append({'kind': 'transpose-silently-wrong', 'case': one,
                                       'detail': f'{sub} is transposed to {opT.subscripts}, which is not the adjoint (shape {MT.shape} vs {M.T.shape}, max diff {P.maxdiff(MT, M.T) if MT.shape == M.T.shape else "n/a"})'})
    return {'n': len(cases), 'violations': violations, 'counters': counters, 'nontrivial': nontrivial, 'samples': [dict(c, example=f"{c['L']},{Rs[0]}->{Os[0]}") for c in cases[:1]]}


def finalize(results, tier, seed):
    c = results['strings']['counters']
    nt = results['strings']['nontrivial'] | results['trees']['nontrivial']
    cov = {'evaluations': c['strings'] + results['trees']['n'], 'distinct_nontrivial': len(nt), 'samples': results['strings']['samples'][:2] + results['trees']['samples'][:1],
           'exhaustive': True, 'numpy_invalid': c['numpy_invalid'], 'mv_ok': c['mv_ok'], 'transpose_rejected': c['T_rejected'] + c['T_rejected_at_first_use'],
           'transpose_exact': c['T_exact'], 'family_transpose_exact': c['family_T_exact'],
           'rule': 'one evaluation = one subscript string under one size assignment; non-trivial = numpy.einsum accepts it and mv agrees, so the '
                   'transpose was attempted and either rejected or compared on all basis vectors'}
    return {'coverage': cov, 'violations': [], 'assumptions': ['numpy.einsum is the specification', 'letters over {i,j,k}; ellipsis stands for one extra axis of size 2']}
