"""C08 - algebraic tags are truthful.

For every concrete operator class (specimens of the universe + depth-<=2 composites) and every tag query lineax
dispatches on (is_symmetric, is_diagonal, is_lower/upper_triangular, is_tridiagonal, is_positive/negative_semidefinite)
plus furax's own decorators (square: cls.out_structure is cls.in_structure; orthogonal: cls.inverse is cls.transpose):
a YES answer obliges the probed dense matrix to have the property.  symmetric => M == M^T and A.T is A;
orthogonal => M^T M == I and probe(A.I) == M^T; square => equal structures.  A NO answer is never checked.
"""
from __future__ import annotations

PROPERTY = 'C08'
LEVEL = 'exploration'
TARGET = 'checks.c08:run'


def plan(tier, seed):
    from mc import universe as U

    return [
        {'name': 'x32', 'target': TARGET, 'x64': False, 'cases': U.cases(tier, ('f32',), modulus=8)},   # pairs of symmetric-tagged specimens are always included
        {'name': 'x64_f32', 'target': TARGET, 'x64': True, 'chunk': 3, 'cases': [c for c in U.cases(tier, ('f32',)) if tier == 'thorough' or 'b' not in c]},
        {'name': 'x64', 'target': TARGET, 'x64': True, 'chunk': 3,
         'cases': U.cases(tier, ('f64',)) if tier == 'thorough' else [c for c in U.cases(tier, ('f64',)) if 'b' not in c]},
    ]


def oracle(desc, op, exact):
    from mc import probe as P

    probs, yes = _oracle(desc, op, exact)
    red = P.lib('reduce', op.reduce)
    if red is not op:   # what reduce() returns is an operator handed to solvers too
        p2, y2 = _oracle(desc, red, exact)
        probs += [(k + '-after-reduce', d) for k, d in p2]
        yes = yes or y2
        # the factors reduce() creates (merged scalars, merged rotations, diagonals of multiplicities) carry tags too
        from furax._base.blocks import AbstractBlockOperator
        from furax._base.core import AdditionOperator, CompositionOperator

        kids = list(red.operands) if isinstance(red, CompositionOperator) else red.operand_leaves if isinstance(red, AdditionOperator) else red.block_leaves if isinstance(red, AbstractBlockOperator) else []
        for kid in kids[:6]:
            p3, y3 = _oracle(desc, kid, exact)
            probs += [(k + '-factor-after-reduce', d) for k, d in p3]
            yes = yes or y3
    return probs, yes


def _oracle(desc, op, exact):
    import lineax as lx
    import numpy as np

    from mc import probe as P

    probs = []
    M = None
    yes = []
    tol = 1e-12 if exact else P.tol_for(*P.op_dtypes(op))

    def mat():
        nonlocal M
        if M is None:
            M = P.probe(op, cache=False).M
        return M

    tags = {
        'is_symmetric': lambda m: m.shape[0] == m.shape[1] and P.close(m, m.T, tol),
        'is_diagonal': lambda m: m.shape[0] == m.shape[1] and P.close(m - np.diag(np.diag(m)), np.zeros_like(m), tol),
        'is_lower_triangular': lambda m: m.shape[0] == m.shape[1] and P.close(np.triu(m, 1), np.zeros_like(m), tol),
        'is_upper_triangular': lambda m: m.shape[0] == m.shape[1] and P.close(np.tril(m, -1), np.zeros_like(m), tol),
        'is_tridiagonal': lambda m: m.shape[0] == m.shape[1] and P.close(np.triu(m, 2), np.zeros_like(m), tol) and P.close(np.tril(m, -2), np.zeros_like(m), tol),
        'is_positive_semidefinite': lambda m: m.shape[0] == m.shape[1] and float(np.min(np.linalg.eigvalsh((m + m.T) / 2))) >= -1e-6 * (1 + np.abs(m).max()),
        'is_negative_semidefinite': lambda m: m.shape[0] == m.shape[1] and float(np.max(np.linalg.eigvalsh((m + m.T) / 2))) <= 1e-6 * (1 + np.abs(m).max()),
    }
    for name, holds in tags.items():
        try:
            answer = bool(getattr(lx, name)(op))
        except Exception:  # noqa: BLE001  - no registration for this class: lineax refuses, nothing is claimed
            continue
        if answer:
            yes.append(name)
            if not holds(mat()):
                probs.append((f'false-{name}', f'{type(op).__name__} answers True to lineax.{name} but its matrix is {P.mat_summary(mat(), 48)}'))
            if name == 'is_symmetric':
                T = P.lib('transpose', lambda: op.T)
                if T is not op:
                    probs.append(('symmetric-T-is-not-self', f'{type(op).__name__}.T is a {type(T).__name__}'))
    cls = type(op)
    if cls.out_structure is cls.in_structure:
        yes.append('square')
        if not P.same_struct(op.in_structure(), op.out_structure()) or mat().shape[0] != mat().shape[1]:
            probs.append(('false-square', f'{cls.__name__} is decorated square but maps {mat().shape[1]} -> {mat().shape[0]} elements'))
        else:
            import jax
            import jax.numpy as jnp

            y = P.lib('mv', op.mv, jax.tree.map(lambda l: jnp.ones(l.shape, l.dtype), op.in_structure()))
            wide = any(np.dtype(v.dtype).itemsize > np.dtype(l.dtype).itemsize for v, l in zip(jax.tree.leaves(op), jax.tree.leaves(op.in_structure())) if hasattr(v, 'dtype')) if False else False
            if P.actual_struct_sig(y) != P.ssig(op.in_structure()) and 'widening' not in desc['a'] and 'complex' not in desc['a']:
                probs.append(('false-square', f'{cls.__name__} is decorated square but returns {P.actual_struct_sig(y)} for an input of structure {P.ssig(op.in_structure())}'))
    if getattr(cls, 'inverse', None) is getattr(cls, 'transpose', None):
        yes.append('orthogonal')
        m = mat()
        if m.shape[0] != m.shape[1] or not P.close(m.T @ m, np.eye(m.shape[1]), max(tol, 1e-5)):
            probs.append(('false-orthogonal', f'{cls.__name__} is decorated orthogonal but M^T M = {P.mat_summary(m.T @ m, 48)}'))
        inv = P.lib('inverse', lambda: op.I)
        mi = P.probe(inv, cache=False).M
        if not P.close(mi, m.T, max(tol, 1e-5)):
            probs.append(('orthogonal-inverse', f'A.I does not act as A.T (max diff {P.maxdiff(mi, m.T):.4g})'))
    return [(k, d) for k, d in probs], bool(yes)


def run(phase, cases, ctx):
    from mc import unirun
    from mc import universe as U

    out = unirun.run(cases, oracle)
    out['discovered'] = set(U.discover_classes())
    return out


def finalize(results, tier, seed):
    from mc import unirun

    discovered = set()
    for r in results.values():
        discovered |= set(r.get('discovered', ()))
    cov = unirun.coverage(results, 'one case = a specimen or an ordered pair (all composite forms); non-trivial = at least one tag/decorator '
                          'answers YES for the operator (so a matrix property is actually verified)')
    cov['uncovered_classes'] = sorted(discovered - set(cov['classes_exercised']))
    cov['discovered_classes'] = len(discovered)
    return {'coverage': cov, 'violations': [], 'assumptions': ['a NO answer is never checked (the property only forbids false positives)']}
