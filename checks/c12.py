"""C12 - indexing and packing select, and their transposes scatter-add.

Every index tuple over per-axis items {every in-range int (negative too), 4 slices, a 1-D int array with negative and
repeated entries, a 2-D int array, a boolean mask} with an Ellipsis at every position (tuples up to the leaf rank), on
leaf shapes (3,), (2,3), (2,1,3); numpy decides legality and the result.  Oracle per legal tuple:
  construction WITH explicit output structure and WITHOUT (boolean masks: must demand it);
  mv == x[idx];  P.T(y) == scatter-add (np.add.at);  out_structure;
  (P @ P.T).reduce(): if it is the identity then no input element may be selected twice, and it is the identity whenever
      the indices are (derived or declared) duplicate-free; it always denotes P P^T;
  (P.T @ P).reduce() denotes diag(multiplicities) and is a diagonal operator for a single integer-array axis.
Pytrees of 1-3 leaves, Stokes containers; PackOperator(mask) == indexing every Stokes leaf by the mask for all masks of
length <= 4 and all 2x2 masks; StokesPyTree.__getitem__.
"""
from __future__ import annotations

import collections
import itertools
import json

PROPERTY = 'C12'
LEVEL = 'exploration'
TARGET = 'checks.c12:run'
SHAPES = [[3], [2, 3], [2, 1, 3]]


def items_for(d, extra=False):
    """JSON descriptions of per-axis index items for an axis of size d (extra: leaves of rank <= 2 only)."""
    its = [['int', i] for i in range(-d, d)]
    its += [['sl', None, None, None], ['sl', 0, 2, None], ['sl', None, None, -1], ['sl', 1, None, 2]]
    its += [['a1', [0, -1, 0]], ['a2', [[0, d - 1], [d - 1, -1]]], ['a2', [list(range(d)) + [0]]], ['au', [d - 1, 0] if d > 1 else [0]]]
    mask = [False] * d
    mask[0] = True
    mask[-1] = True
    its += [['mask', mask]]
    if extra:
        # one-element and 0-d integer arrays, unsigned dtypes, and a second 1-D array of the same shape and dtype as the
        # first but other contents
        its += [['a1', [d - 1]], ['a0', d - 1], ['a1', [0, d - 1, 0], 'uint8'], ['a1', [d - 1, 0, 0, 0], 'uint32'], ['a1', [d - 1, d - 1, -d]],
                ['l1', [0, 0, d - 1]], ['l1', [d - 1, 0]]]   # plain Python lists (with and without a repeated entry)
    return its


def tuples_for(shape):
    """All index tuples: L items without ellipsis (addressing the first L axes), and head + Ellipsis + tail where the
    tail items address the LAST axes (their descriptions are taken from those axes)."""
    out = []
    per_axis = [items_for(d, extra=len(shape) <= 2) for d in shape]
    r = len(shape)
    for L in range(0, r + 1):
        for combo in (itertools.product(*per_axis[:L]) if L else [()]):
            out.append(list(combo))
    for head in range(0, r + 1):
        for tail in range(0, r + 1 - head):
            heads = itertools.product(*per_axis[:head]) if head else [()]
            for h in heads:
                tails = itertools.product(*per_axis[r - tail:]) if tail else [()]
                for t in tails:
                    out.append(list(h) + [['ell']] + list(t))
    seen, uniq = set(), []
    for t in out:
        k = json.dumps(t)
        if k not in seen:
            seen.add(k)
            uniq.append(t)
    return uniq


def plan(tier, seed):
    cases = []
    for shape in SHAPES:
        for t in tuples_for(shape):
            cases.append({'shape': shape, 'idx': t})
    tree_cases = []
    for t in tuples_for([2, 3]):
        if len(t) <= 2 and (tier == 'thorough' or len(json.dumps(t)) % 3 == 0):
            tree_cases.append({'tree': 'two', 'idx': t})
            tree_cases.append({'tree': 'stokes', 'idx': t})
            tree_cases.append({'tree': 'dtypes', 'idx': t})
    pack = []
    for n in range(1, 5):
        for m in itertools.product([False, True], repeat=n):
            for kind in ('I', 'QU', 'IQU', 'IQUV'):
                pack.append({'pack': list(m), 'stokes': kind})
    for m in itertools.product([False, True], repeat=4):
        pack.append({'pack': [list(m[:2]), list(m[2:])], 'stokes': 'IQU'})
    for n in (2, 3):
        for m in itertools.product([False, True], repeat=n):
            for kind in ('I', 'IQU'):
                for trailing in ([3], [2, 2]):
                    pack.append({'pack': list(m), 'stokes': kind, 'trailing': trailing})
    # one element hit so often that a count accumulated in the data dtype would stop growing (2048 in float16, 256 in bfloat16)
    many = [{'many': n, 'dt': dt, 'lay': lay} for dt, ns in (('float16', (2047, 2050, 4100)), ('bfloat16', (258, 1030)), ('float32', (2050,)))
            for n in ns for lay in ('vec', 'last_of_2d')]
    many += [{'many': 5, 'dt': 'float32', 'lay': lay} for lay in ('vec_numpy_index', 'vec_list_index')]   # the index array as the caller's NumPy array / list
    return [
        {'name': 'many', 'target': TARGET, 'x64': False, 'cases': many, 'chunk': 1},
        {'name': 'single', 'target': TARGET, 'x64': False, 'cases': cases, 'chunk': max(10, len(cases) // 300)},
        {'name': 'trees', 'target': TARGET, 'x64': False, 'cases': tree_cases, 'chunk': 10},
        {'name': 'pack', 'target': TARGET, 'x64': False, 'cases': pack, 'chunk': 10},
    ]


# ------------------------------------------------------------------------------------------ worker
def to_np(item):
    import numpy as np

    k = item[0]
    if k == 'int':
        return item[1]
    if k == 'sl':
        return slice(item[1], item[2], item[3])
    if k == 'l1':
        return list(item[1])
    if k in ('a1', 'a2', 'au', 'a0'):
        return np.array(item[1], dtype=item[2] if len(item) > 2 else None)
    if k == 'mask':
        return np.array(item[1], dtype=bool)
    if k == 'ell':
        return Ellipsis
    raise KeyError(k)


def to_jax(idx_np):
    import jax.numpy as jnp
    import numpy as np

    return tuple(jnp.asarray(i) if isinstance(i, np.ndarray) else i for i in idx_np)


PR = [2, 3, 5, 7, 11, 13, 17, 19, 23, 29, 31, 37, 41, 43, 47, 53]


def data(shape, k=0):
    import numpy as np

    n = int(np.prod(shape)) if len(shape) else 1
    return np.array([PR[(i + k) % len(PR)] * (1 if (i + k) % 3 else -1) for i in range(n)], np.float32).reshape(shape)


def check_index(case, violations, counters):
    import jax
    import jax.numpy as jnp
    import numpy as np

    from furax._base.core import CompositionOperator, IdentityOperator
    from furax._base.diagonal import DiagonalOperator
    from furax._base.indices import IndexOperator
    from mc import probe as P

    f32 = jnp.float32
    shape = tuple(case['shape'])
    idx_np = tuple(to_np(i) for i in case['idx'])
    x = data(shape)
    try:
        ref = x[idx_np]
    except Exception:  # noqa: BLE001
        counters['numpy_illegal'] += 1
        return False
    # keep the alphabet where numpy and JAX semantics are documented to coincide: at most one boolean mask, in bounds
    has_mask = any(i[0] == 'mask' for i in case['idx'])
    declared_unique = any(i[0] == 'au' for i in case['idx']) and not any(i[0] in ('a1', 'a2', 'l1') for i in case['idx'])
    idx = to_jax(idx_np)
    in_s = jax.ShapeDtypeStruct(shape, f32)
    out_s = jax.ShapeDtypeStruct(ref.shape, f32)
    kw = {'unique_indices': True} if declared_unique else {}
    counters['legal'] += 1
    # --- construction, with and without explicit output structure
    try:
        op = IndexOperator(idx, in_structure=in_s, out_structure=out_s, **kw)
    except Exception as e:  # noqa: BLE001
        err = P.LibError('IndexOperator(..., out_structure=...)', e)
        violations.append({'kind': 'construction-with-structure-raises', 'case': case, 'detail': f'result shape {ref.shape}: {err}\n{err.tb}'})
        return True
    try:
        op2 = IndexOperator(idx, in_structure=in_s, **kw)
        if has_mask:
            violations.append({'kind': 'mask-without-structure-accepted', 'case': case, 'detail': 'boolean mask without explicit output structure'})
        elif not P.same_struct(op2.out_structure(), out_s):
            violations.append({'kind': 'derived-out-structure', 'case': case, 'detail': f'{op2.out_structure()} instead of shape {ref.shape}'})
    except ValueError as e:
        if not has_mask:
            violations.append({'kind': 'construction-without-structure-raises', 'case': case, 'detail': f'ValueError: {e}'})
    except Exception as e:  # noqa: BLE001
        err = P.LibError('IndexOperator(...) without out_structure', e)
        violations.append({'kind': 'construction-without-structure-raises', 'case': case, 'detail': f'{err}\n{err.tb}'})
    try:
        got = np.asarray(op.mv(jnp.asarray(x)))
        if got.shape != ref.shape or not np.array_equal(got, ref):
            violations.append({'kind': 'wrong-selection', 'case': case, 'detail': f'got shape {got.shape} {got.ravel()[:8]}; numpy x[idx] shape {ref.shape} {ref.ravel()[:8]}'})
            return True
        if ref.size == 0:
            return True
        y = data(ref.shape, 5)
        gt = np.asarray(op.T.mv(jnp.asarray(y)))
        want = np.zeros(shape, np.float32)
        np.add.at(want, idx_np, y)
        if gt.shape != want.shape or not np.array_equal(gt, want):
            violations.append({'kind': 'transpose-not-scatter-add', 'case': case, 'detail': f'P.T y = {gt.ravel()[:8]}, np.add.at gives {want.ravel()[:8]}'})
            return True
        # dense matrices for the product rules
        M = P.probe(op, cache=False).M
        PPt = M @ M.T
        PtP = M.T @ M
        dup_free = bool(np.all(M.sum(axis=0) <= 1))
        T = op.T
        r1 = CompositionOperator([op, T]).reduce()
        m1 = P.probe(r1, cache=False).M
        if not np.array_equal(m1, PPt):
            violations.append({'kind': 'PPt-wrong', 'case': case, 'detail': f'(P @ P.T).reduce() denotes {P.mat_summary(m1, 36)} but P P^T = {P.mat_summary(PPt, 36)}'})
        if isinstance(r1, IdentityOperator) and not dup_free:
            violations.append({'kind': 'PPt-identity-with-duplicates', 'case': case, 'detail': 'simplified to the identity although an input element is selected twice'})
        derived_unique = not any(i[0] in ('a1', 'a2', 'au', 'l1') for i in case['idx'])
        if (derived_unique or declared_unique) and not isinstance(r1, IdentityOperator):
            counters['PPt_duplicate_free_not_simplified'] += 1  # information only: the property forbids the converse (C07 owns liveness)
        r2 = CompositionOperator([T, op]).reduce()
        m2 = P.probe(r2, cache=False).M
        if not np.array_equal(m2, PtP) or not np.array_equal(PtP, np.diag(np.diag(PtP))):
            violations.append({'kind': 'PtP-wrong', 'case': case, 'detail': f'(P.T @ P).reduce() denotes {P.mat_summary(m2, 36)} but diag(multiplicity) = {np.diag(PtP)}'})
        non_trivial_items = [i for i in case['idx'] if i[0] != 'ell' and not (i[0] == 'sl' and i[1:] == [None, None, None])]
        if len(non_trivial_items) == 1 and non_trivial_items[0][0] in ('a1', 'a2') and not isinstance(r2, DiagonalOperator):
            violations.append({'kind': 'PtP-not-simplified', 'case': case, 'detail': f'single integer-array axis but (P.T @ P).reduce() is a {type(r2).__name__}'})
        if any(i[0] in ('a1', 'a2', 'au') for i in case['idx']) and not has_mask and len(case['idx']) <= 2:   # boolean masks cannot be traced; short tuples only (one compilation each)
            import equinox

            yv = data(ref.shape, 9)
            got_j = np.asarray(equinox.filter_jit(lambda o, v: CompositionOperator([o, o.T]).reduce().mv(v))(op, jnp.asarray(yv)))
            want_j = (PPt @ yv.ravel()).reshape(ref.shape)
            if got_j.shape != want_j.shape or not np.array_equal(got_j, want_j):
                violations.append({'kind': 'PPt-wrong-under-jit', 'case': case, 'detail': f'(P @ P.T).reduce() evaluated inside filter_jit gives {got_j.ravel()[:6]} instead of {want_j.ravel()[:6]}'})
            counters['PPt_jit'] += 1
        if isinstance(r2, DiagonalOperator):
            counters['PtP_diagonal'] += 1
        if isinstance(r1, IdentityOperator):
            counters['PPt_identity'] += 1
    except P.LibError as e:
        violations.append({'kind': 'library-raises', 'case': case, 'detail': f'{e}\n{e.tb}'})
    except Exception as e:  # noqa: BLE001
        err = P.LibError('index operator', e)
        violations.append({'kind': 'library-raises', 'case': case, 'detail': f'{err}\n{err.tb}'})
    return True


def check_tree(case, violations, counters):
    import jax
    import jax.numpy as jnp
    import numpy as np

    from furax._base.indices import IndexOperator
    from furax.landscapes import StokesIQUPyTree
    from mc import probe as P

    f32 = jnp.float32
    idx_np = tuple(to_np(i) for i in case['idx'])
    dts = {'u': f32, 'v': f32, 'w': f32}
    if case['tree'] == 'dtypes':   # one shape, three dtypes: a derived output structure must keep each leaf's dtype
        shapes = {'u': (2, 3), 'v': (2, 3), 'w': (2, 3)}
        dts = {'u': jnp.float16, 'v': f32, 'w': jnp.complex64}
    elif case['tree'] == 'two':
        shapes = {'u': (2, 3), 'v': (2, 3, 2), 'w': (2, 3)}
    else:
        shapes = {'i': (2, 3), 'q': (2, 3), 'u': (2, 3)}
    xs = {k: data(s, j * 3) for j, (k, s) in enumerate(shapes.items())}
    try:
        refs = {k: v[idx_np] for k, v in xs.items()}
    except Exception:  # noqa: BLE001
        return False
    has_mask = any(i[0] == 'mask' for i in case['idx'])
    idx = to_jax(idx_np)
    if case['tree'] in ('two', 'dtypes'):
        in_s = {k: jax.ShapeDtypeStruct(s, dts[k]) for k, s in shapes.items()}
        out_s = {k: jax.ShapeDtypeStruct(r.shape, dts[k]) for k, r in refs.items()}
        x_in = {k: jnp.asarray(v, dts[k]) for k, v in xs.items()}
    else:
        in_s = StokesIQUPyTree(*[jax.ShapeDtypeStruct(s, f32) for s in shapes.values()])
        out_s = StokesIQUPyTree(*[jax.ShapeDtypeStruct(r.shape, f32) for r in refs.values()])
        x_in = StokesIQUPyTree(*[jnp.asarray(v) for v in xs.values()])
    counters['legal'] += 1
    try:
        op = IndexOperator(idx, in_structure=in_s, out_structure=out_s)
        y = op.mv(x_in)
        got = jax.tree.leaves(y)
        for g, (k, r) in zip(got, sorted(refs.items()) if case['tree'] in ('two', 'dtypes') else refs.items()):
            if np.asarray(g).shape != r.shape or not np.array_equal(np.asarray(g), r):
                violations.append({'kind': 'wrong-selection', 'case': case, 'detail': f'leaf {k}: {np.asarray(g).ravel()[:6]} vs {r.ravel()[:6]}'})
                return True
        if not has_mask:
            op2 = IndexOperator(idx, in_structure=in_s)
            if not P.same_struct(op2.out_structure(), out_s):
                violations.append({'kind': 'derived-out-structure', 'case': case, 'detail': f'{op2.out_structure()}'})
        if all(r.size for r in refs.values()) and case['tree'] != 'dtypes':
            M = P.probe(op, cache=False).M
            Mt = P.probe(op.T, cache=False).M
            if not np.array_equal(Mt, M.T):
                violations.append({'kind': 'transpose-not-scatter-add', 'case': case, 'detail': 'probe(P.T) != probe(P)^T on a pytree'})
        if case['tree'] == 'stokes' and not (len(idx) == 1 and isinstance(idx[0], list)):   # a bare list is refused by JAX arrays themselves
            g2 = x_in[idx if len(idx) != 1 else idx[0]]
            for a_, b_ in zip(jax.tree.leaves(g2), jax.tree.leaves(y)):
                if not np.array_equal(np.asarray(a_), np.asarray(b_)):
                    violations.append({'kind': 'stokes-getitem', 'case': case, 'detail': 'StokesPyTree.__getitem__ differs from the index operator'})
                    break
    except Exception as e:  # noqa: BLE001
        err = P.LibError('index operator on pytree', e)
        violations.append({'kind': 'library-raises', 'case': case, 'detail': f'{err}\n{err.tb}'})
    return True


def check_pack(case, violations, counters):
    import jax
    import jax.numpy as jnp
    import numpy as np

    from furax._base.core import CompositionOperator, IdentityOperator
    from furax._base.linear import PackOperator
    from furax.landscapes import StokesPyTree
    from mc import probe as P

    f32 = jnp.float32
    mask = np.array(case['pack'], dtype=bool)
    cls = StokesPyTree.class_for(case['stokes'])
    shape = mask.shape + tuple(case.get('trailing', []))   # a mask may address only the leading axes of the leaves
    in_s = cls.structure_for(shape, f32)
    comps = [data(shape, 4 * j) for j in range(len(case['stokes']))]
    x = cls(*[jnp.asarray(c) for c in comps])
    counters['legal'] += 1
    try:
        op = PackOperator(jnp.asarray(mask), in_s)
        y = op.mv(x)
        for g, c in zip(jax.tree.leaves(y), comps):
            if not np.array_equal(np.asarray(g), c[mask]):
                violations.append({'kind': 'pack-wrong', 'case': case, 'detail': f'{np.asarray(g)} vs {c[mask]}'})
                return True
        if mask.sum() == 0:
            return True
        M = P.probe(op, cache=False).M
        Mt = P.probe(op.T, cache=False).M
        if not np.array_equal(Mt, M.T):
            violations.append({'kind': 'unpack-not-scatter', 'case': case, 'detail': 'probe(pack.T) != probe(pack)^T'})
        r = CompositionOperator([op, op.T]).reduce()
        if not isinstance(r, IdentityOperator):
            violations.append({'kind': 'pack-unpack-not-simplified', 'case': case, 'detail': type(r).__name__})
        elif not P.same_struct(r.in_structure(), op.out_structure()):
            violations.append({'kind': 'pack-unpack-structure', 'case': case, 'detail': f'{r.in_structure()} vs {op.out_structure()}'})
    except Exception as e:  # noqa: BLE001
        err = P.LibError('pack operator', e)
        violations.append({'kind': 'library-raises', 'case': case, 'detail': f'{err}\n{err.tb}'})
    return True


def check_many(case, violations, counters):
    import jax
    import jax.numpy as jnp
    import numpy as np

    from furax._base.core import CompositionOperator
    from furax._base.diagonal import DiagonalOperator
    from furax._base.indices import IndexOperator
    from mc import probe as P

    D = jnp.dtype(case['dt'])
    n = case['many']
    index = np.array([1] * n + [0, 2, 0, -1], dtype=np.int32)
    counts = np.bincount(index % 3, minlength=3)
    try:
        if case['lay'].startswith('vec'):
            given = jnp.asarray(index) if case['lay'] == 'vec' else (index.copy() if 'numpy' in case['lay'] else index.tolist())
            op = IndexOperator(given, in_structure=jax.ShapeDtypeStruct((3,), D))
            want = np.diag(np.asarray(jnp.asarray(counts, D), np.float64))
        else:
            op = IndexOperator((Ellipsis, jnp.asarray(index)), in_structure=jax.ShapeDtypeStruct((2, 3), D))
            want = np.diag(np.tile(np.asarray(jnp.asarray(counts, D), np.float64), 2))
        r = CompositionOperator([op.T, op]).reduce()
        M = P.probe(r, cache=False).M
        if M.shape != want.shape or not np.array_equal(M, want):
            violations.append({'kind': 'PtP-wrong', 'case': case, 'detail': f'(P.T @ P).reduce() denotes diag {np.diag(M)} but the hit counts {counts} are {np.diag(want)} in {case["dt"]}'})
        if not isinstance(r, DiagonalOperator):
            violations.append({'kind': 'PtP-not-simplified', 'case': case, 'detail': f'single integer-array axis but (P.T @ P).reduce() is a {type(r).__name__}'})
        counters['legal'] += 1
    except P.LibError as e:
        violations.append({'kind': 'library-raises', 'case': case, 'detail': f'{e}\n{e.tb}'})
    except Exception as e:  # noqa: BLE001
        err = P.LibError('index operator', e)
        violations.append({'kind': 'library-raises', 'case': case, 'detail': f'{err}\n{err.tb}'})
    return True


def run(phase, cases, ctx):
    violations = []
    counters = collections.Counter()
    nontrivial = set()
    fn = {'single': check_index, 'trees': check_tree, 'pack': check_pack, 'many': check_many}[phase]
    for case in cases:
        if fn(case, violations, counters):
            nontrivial.add(json.dumps(case))
    return {'n': len(cases), 'violations': violations, 'counters': counters, 'nontrivial': nontrivial, 'samples': [c for c in cases if len(json.dumps(c)) > 60][:1]}


def finalize(results, tier, seed):
    counters = collections.Counter()
    nontrivial = set()
    samples = []
    n = 0
    for r in results.values():
        counters.update(r['counters'])
        nontrivial |= r['nontrivial']
        samples += r['samples'][:1]
        n += r['n']
    cov = {'evaluations': n, 'distinct_nontrivial': len(nontrivial), 'samples': samples, 'exhaustive': True,
           'numpy_illegal': counters['numpy_illegal'], 'legal': counters['legal'], 'PPt_identity': counters['PPt_identity'], 'PtP_diagonal': counters['PtP_diagonal'],
           'rule': 'one case = (leaf shape(s), index tuple); non-trivial = numpy accepts the tuple, so that construction, selection, '
                   'scatter-add and both product rules were compared'}
    return {'coverage': cov, 'violations': [], 'assumptions': ['in-bounds indices (numpy and JAX semantics coincide there)', 'numpy indexing / np.add.at are the specification']}
