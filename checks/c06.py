"""C06 - inverses invert.

Closed forms, each over its full small grid: scalar operators (5 values x 2 spaces), diagonal operators (leaf shapes x
value layouts x value sets incl. zeros -> Moore-Penrose pseudo-inverse, negatives), block-diagonal operators of
invertible blocks in 7 containers (and with one non-square block -> refusal / fallback), QU rotations (4 Stokes kinds x
angle arrays), identity, move-axis for every argument tuple on leaf shapes of rank <= 3.
   probe(A.I) probe(A) == I == probe(A) probe(A.I)   (pinv identities when zeros are present; all entries finite)
   probe(A.I.I) == probe(A)
Lazy inverse: every symmetric positive-definite integer 2x2 / 3x3 matrix with entries in {-1,0,1,2,3} and condition
number <= 100 (plus B^T B + D, D + Toeplitz, SPD block-diagonal operators) x solver settings x ALL basis right-hand
sides: ||A z - y|| within the configured tolerance; as_matrix() of the inverse == inv(M); non-square operators refused.
"""
from __future__ import annotations

import collections
import itertools
import json

PROPERTY = 'C06'
LEVEL = 'exploration'
TARGET = 'checks.c06:run'

SCALARS = [2.0, -0.5, 4.0, -1.0, 1e-3, 3e-8]
DIAG_VALUES = {'pos': [2.0, 4.0, 0.5, 8.0, 3.0, 5.0], 'neg': [-2.0, 4.0, -0.5, 8.0, -3.0, 5.0], 'zero': [2.0, 0.0, -0.5, 0.0, 3.0, 0.0], 'allzero': [0.0] * 6,
               'tiny': [3e-8, 2.0, -1e-10, 0.0, 6e-8, 1e-20]}
DIAG_LAYOUTS = [  # (leaf shape, value shape, axis_destination)
    ((2,), (2,), -1), ((3,), (3,), 0), ((2, 3), (3,), -1), ((2, 3), (2,), 0), ((2, 3), (2, 3), 0), ((2, 3), (2, 3), (0, 1)),
    ((2, 3), (3, 2), (1, 0)), ((2, 1, 3), (2,), 0), ((2, 1, 3), (3,), -1), ((2, 1, 3), (2, 1), 0), ((2, 1, 3), (1, 3), -1),
    ((2, 1, 3), (2, 3), (0, 2)), ((2, 1, 3), (1,), 1),
]
SOLVERS = ['cg6', 'cg3', 'cg6_precond', 'cg6_throw']


def spd_family(n, step):
    import numpy as np

    vals = [-1, 0, 1, 2, 3]
    idx = [(i, j) for i in range(n) for j in range(i, n)]
    out = []
    k = 0
    for combo in itertools.product(vals, repeat=len(idx)):
        M = np.zeros((n, n))
        for (i, j), v in zip(idx, combo):
            M[i, j] = M[j, i] = v
        w = np.linalg.eigvalsh(M)
        if w[0] > 1e-9 and w[-1] / w[0] <= 100:
            if k % step == 0:
                out.append(M.astype(int).tolist())
            k += 1
    return out


def moveaxis_args(rank):
    import numpy as np

    out = []
    axes = list(range(-rank, rank))
    for s in axes:
        for d in axes:
            out.append((s, d))
    for L in (2, 3):
        if L > rank:
            continue
        for s in itertools.permutations(range(rank), L):
            for d in itertools.permutations(range(rank), L):
                out.append((list(s), list(d)))
    ok = []
    for s, d in out:
        try:
            np.moveaxis(np.zeros((2,) * rank), s, d)
            ok.append((s, d))
        except Exception:  # noqa: BLE001
            pass
    return ok


def plan(tier, seed):
    closed = []
    for v in SCALARS:
        for sp in ('a', 'tree'):
            closed.append({'kind': 'scalar', 'value': v, 'space': sp})
    for (leaf, vs, ax), vals in itertools.product(DIAG_LAYOUTS, DIAG_VALUES):
        closed.append({'kind': 'diag', 'leaf': list(leaf), 'vshape': list(vs), 'axis': ax if isinstance(ax, int) else list(ax), 'vals': vals})
    closed.append({'kind': 'diag_tree', 'vals': 'zero'})
    closed.append({'kind': 'diag_tree', 'vals': 'neg'})
    for cont in ['list1', 'list2', 'tuple3', 'dict2', 'dictnested3', 'nested2', 'bare1']:
        for blocks in (['D', 'K', 'Dz'], ['R', 'D', 'I'], ['R', 'Rt', 'K'], ['K', 'D', 'D'], ['G', 'D', 'K'], ['D', 'G', 'W']):
            closed.append({'kind': 'blockdiag', 'cont': cont, 'blocks': blocks})
    angle_sets = {'s': 0.7, 'v2': [0.3, -1.1], 'v2b': [3.14159265 / 8, -7.0], 'c21': [[0.3], [2.5]], 'm23': [[0.1, 0.2, 1e-3], [1.5707963, -0.4, 2.5]]}
    for kind in ('I', 'QU', 'IQU', 'IQUV'):
        for shape in ((2,), (2, 3)):
            for an, av in angle_sets.items():
                if (shape == (2,) and an in ('s', 'v2', 'v2b')) or (shape == (2, 3) and an in ('s', 'c21', 'm23')):
                    closed.append({'kind': 'rot', 'stokes': kind, 'shape': list(shape), 'angles': av})
    closed.append({'kind': 'scalar_sequence'})
    closed.append({'kind': 'identity', 'space': 'a'})
    closed.append({'kind': 'identity', 'space': 'tree'})
    for shape in ((3,), (2, 3), (2, 1, 3)):
        for s, d in moveaxis_args(len(shape)):
            closed.append({'kind': 'moveaxis', 'shape': list(shape), 'src': s, 'dst': d})
    lazy = []
    fam = [('m2', m) for m in spd_family(2, 1)] + [('m3', m) for m in spd_family(3, 7 if tier == 'quick' else 1)]
    for (_, m), sv in itertools.product(fam, SOLVERS if tier == 'thorough' else ['cg6', 'cg3']):
        lazy.append({'kind': 'dense', 'm': m, 'solver': sv})
    for m in [f[1] for f in fam][:: (9 if tier == 'quick' else 3)]:
        for sv in ('cg6_precond', 'cg6_throw'):
            lazy.append({'kind': 'dense', 'm': m, 'solver': sv})
    for k, sv in itertools.product(('btb_d', 'd_toep', 'blockspd', 'spd_tree'), SOLVERS):
        lazy.append({'kind': k, 'solver': sv})
    # 'eq_*': input and output hold the same NUMBER of elements but are different structures - not square either
    for k in ('rect', 'blockrect', 'index', 'eq_ravel', 'eq_reshape', 'eq_block_ravel', 'eq_dense_2x3_to_6'):
        lazy.append({'kind': k, 'solver': 'cg6'})
    return [
        {'name': 'closed', 'target': TARGET, 'x64': False, 'cases': closed, 'chunk': 12},
        {'name': 'closed_x64', 'target': TARGET, 'x64': True, 'cases': [c for c in closed if c['kind'] != 'moveaxis' or tier == 'thorough'], 'chunk': 12},
        {'name': 'lazy', 'target': TARGET, 'x64': False, 'cases': lazy, 'chunk': 12},
        {'name': 'lazy_x64', 'target': TARGET, 'x64': True, 'cases': lazy if tier == 'thorough' else lazy[::3], 'chunk': 12},
    ]


# ------------------------------------------------------------------------------------------ worker
def _ctx():
    import jax
    import jax.numpy as jnp

    D = jnp.float64 if jax.config.jax_enable_x64 else jnp.float32
    return jax, jnp, D


def build_closed(case):
    import numpy as np

    jax, jnp, D = _ctx()
    from furax._base.axes import MoveAxisOperator
    from furax._base.blocks import BlockDiagonalOperator
    from furax._base.core import HomothetyOperator, IdentityOperator
    from furax._base.dense import DenseBlockDiagonalOperator
    from furax._base.diagonal import DiagonalOperator
    from furax.landscapes import StokesPyTree
    from furax.operators.hwp import HWPOperator
    from furax.operators.qu_rotations import QURotationOperator

    def sds(*s):
        return jax.ShapeDtypeStruct(tuple(s), D)

    a = sds(2)
    tree = {'u': a, 'v': sds(2, 3)}
    k = case['kind']
    if k == 'scalar':
        return HomothetyOperator(jnp.asarray(case['value'], D), a if case['space'] == 'a' else tree)
    if k == 'identity':
        return IdentityOperator(a if case['space'] == 'a' else tree)
    if k == 'diag':
        n = int(np.prod(case['vshape']))
        vals = jnp.asarray(np.array(DIAG_VALUES[case['vals']][:n]).reshape(case['vshape']), D)
        ax = case['axis'] if isinstance(case['axis'], int) else tuple(case['axis'])
        return DiagonalOperator(vals, axis_destination=ax, in_structure=sds(*case['leaf']))
    if k == 'diag_tree':
        return DiagonalOperator(jnp.asarray(DIAG_VALUES[case['vals']][:2], D), axis_destination=0, in_structure=tree)
    if k == 'rot':
        s = StokesPyTree.class_for(case['stokes']).structure_for(tuple(case['shape']), D)
        return QURotationOperator(jnp.asarray(case['angles'], D), s)
    if k == 'hwp':
        return HWPOperator(StokesPyTree.class_for(case['stokes']).structure_for(tuple(case['shape']), D))
    if k == 'moveaxis':
        src = case['src'] if isinstance(case['src'], int) else tuple(case['src'])
        dst = case['dst'] if isinstance(case['dst'], int) else tuple(case['dst'])
        return MoveAxisOperator(src, dst, in_structure=sds(*case['shape']))
    if k == 'blockdiag':
        from checks import c10

        s = StokesPyTree.class_for('QU').structure_for((2,), D)
        R = QURotationOperator(jnp.asarray([0.3, -1.1], D), s)
        blocks = {
            'D': DiagonalOperator(jnp.asarray([2.0, 4.0], D), in_structure=a), 'Dz': DiagonalOperator(jnp.asarray([0.0, -4.0], D), in_structure=a),
            'K': HomothetyOperator(jnp.asarray(-0.5, D), a), 'I': IdentityOperator(a), 'R': R, 'Rt': R.T, 'Hs': HWPOperator(s),
            'G': DenseBlockDiagonalOperator(jnp.asarray([[1, 2], [3, 5], [-1, 4]], D), a, 'ij,j->i'),
            'W': DenseBlockDiagonalOperator(jnp.asarray([[1, 0, 2], [-1, 3, 1]], D), sds(3), 'ij,j->i'),
        }
        ops = [blocks[n] for n in case['blocks']]
        return BlockDiagonalOperator(c10.container(case['cont'], ops))
    raise KeyError(k)


def check_scalar_sequence(case, violations):
    """Many scalar operators created, inverted and dropped in one process: every inverse must be 1/value whatever was
    created or discarded before (no dependence on earlier objects)."""
    import gc

    import numpy as np

    jax, jnp, D = _ctx()
    from furax._base.core import HomothetyOperator

    a = jax.ShapeDtypeStruct((2,), D)
    x = jnp.asarray([3.0, -5.0], D)
    vals = [2.0, -0.5, 4.0, 8.0, -1.0, 0.25, 16.0, -3.0]
    for sweep in range(6):
        for v in vals:
            H = HomothetyOperator(jnp.asarray(v, D), a)
            y = np.asarray(H.I(H(x)))            # the inverse is a temporary: dropped at once
            z = np.asarray(H.I.mv(x))
            m = np.asarray(H.I.as_matrix())
            hh = H.I.I
            if not np.allclose(y, np.asarray(x), rtol=1e-5) or not np.allclose(z, np.asarray(x) / v, rtol=1e-5) or not np.allclose(m, np.eye(2) / v, rtol=1e-5) or not np.allclose(np.asarray(hh.mv(x)), v * np.asarray(x), rtol=1e-5):
                violations.append({'kind': 'scalar-inverse-depends-on-history', 'case': case, 'detail': f'sweep {sweep}, value {v}: H.I(H(x)) = {y}, H.I(x) = {z}, expected {np.asarray(x) / v}'})
                return
        gc.collect()


def check_closed(case, violations):
    import numpy as np

    if case['kind'] == 'scalar_sequence':
        return check_scalar_sequence(case, violations)

    from furax._base.core import InverseOperator
    from mc import probe as P

    jax, jnp, D = _ctx()
    try:
        op = P.lib('constructor', build_closed, case)
    except P.LibError as e:
        violations.append({'kind': 'construction-raises', 'case': case, 'detail': f'{e}\n{e.tb}'})
        return
    nonsquare = case['kind'] == 'blockdiag' and any(b in ('G', 'W') for b in case['blocks'][: int(case['cont'][-1])])
    try:
        with P.quiet():
            inv = op.I
        raised = None
    except ValueError as e:
        raised = e
    except Exception as e:  # noqa: BLE001
        violations.append({'kind': 'inverse-raises', 'case': case, 'detail': f'{type(e).__name__}: {e}'})
        return
    if nonsquare:
        if raised is None and not isinstance(inv, InverseOperator):
            violations.append({'kind': 'nonsquare-block-inverted', 'case': case, 'detail': f'{type(inv).__name__} returned for a block-diagonal operator with a non-square block'})
        return
    if raised is not None:
        violations.append({'kind': 'inverse-refused', 'case': case, 'detail': str(raised)})
        return
    if isinstance(inv, InverseOperator):
        violations.append({'kind': 'no-closed-form', 'case': case, 'detail': 'the inverse falls back to the iterative solver although a closed form exists'})
        return
    try:
        M = P.probe(op, cache=False).M
        Mi = P.probe(inv, cache=False).M
        Mii = P.probe(P.lib('inverse of inverse', lambda: inv.I), cache=False).M
    except P.LibError as e:
        violations.append({'kind': 'library-raises', 'case': case, 'detail': f'{e}\n{e.tb}'})
        return
    f64 = D == jnp.float64
    tol = 1e-9 if f64 else 2e-4
    if not np.all(np.isfinite(Mi)):
        violations.append({'kind': 'nonfinite-inverse', 'case': case, 'detail': f'A.I has non-finite entries: {P.mat_summary(Mi, 36)}'})
        return
    singular = bool(np.any(np.all(M == 0, axis=0)))
    n = M.shape[0]
    if singular:
        if case['kind'] in ('diag', 'diag_tree', 'blockdiag') and np.array_equal(M, np.diag(np.diag(M))):
            dd = np.diag(M)
            ref = np.diag(np.array([0.0 if v == 0 else 1.0 / v for v in dd]))   # element-wise: exact for any magnitude
            ok = bool(np.allclose(Mi, ref, rtol=1e-12 if f64 else 2e-5, atol=1e-30))   # relative per entry (magnitudes span 1e-20..1e20)
        else:
            ref = np.linalg.pinv(M)
            ok = P.close(Mi, ref, tol)
        if not ok:
            violations.append({'kind': 'not-the-pseudo-inverse', 'case': case, 'detail': f'A.I = {P.mat_summary(Mi, 36)} but pinv(A) = {P.mat_summary(ref, 36)}'})
    else:
        if not P.close(Mi @ M, np.eye(n), tol) or not P.close(M @ Mi, np.eye(n), tol):
            violations.append({'kind': 'inverse-does-not-invert', 'case': case,
                               'detail': f'A.I A deviates from I by {P.maxdiff(Mi @ M, np.eye(n)):.4g}, A A.I by {P.maxdiff(M @ Mi, np.eye(n)):.4g}; A={P.mat_summary(M, 36)} A.I={P.mat_summary(Mi, 36)}'})
    try:
        Ai = np.asarray(P.lib('inverse.as_matrix', inv.as_matrix))
        Ai = Ai.astype(np.complex128 if np.iscomplexobj(Ai) else np.float64)
        if Ai.shape != Mi.shape or not (np.allclose(Ai, Mi, rtol=1e-12 if f64 else 2e-5, atol=1e-30) if singular or case['kind'] in ('diag', 'diag_tree', 'scalar') else P.close(Ai, Mi, tol)):
            violations.append({'kind': 'as_matrix-of-inverse', 'case': case, 'detail': f'A.I.as_matrix() = {P.mat_summary(Ai, 36)} but A.I acts as {P.mat_summary(Mi, 36)}'})
    except P.LibError as e:
        violations.append({'kind': 'library-raises', 'case': case, 'detail': f'{e}\n{e.tb}'})
    if not P.close(Mii, M, tol):
        violations.append({'kind': 'double-inverse', 'case': case, 'detail': f'A.I.I differs from A by {P.maxdiff(Mii, M):.4g}'})
    if not P.same_struct(inv.in_structure(), op.out_structure()) or not P.same_struct(inv.out_structure(), op.in_structure()):
        violations.append({'kind': 'inverse-structure', 'case': case, 'detail': f'{inv.in_structure()} -> {inv.out_structure()}'})


def build_lazy(case):
    import numpy as np

    jax, jnp, D = _ctx()
    from furax._base.blocks import BlockDiagonalOperator, BlockRowOperator
    from furax._base.dense import DenseBlockDiagonalOperator
    from furax._base.diagonal import DiagonalOperator
    from furax._base.indices import IndexOperator
    from furax.operators.toeplitz import SymmetricBandToeplitzOperator

    def sds(*s):
        return jax.ShapeDtypeStruct(tuple(s), D)

    def dn(m, st):
        return DenseBlockDiagonalOperator(jnp.asarray(m, D), st, 'ij,j->i')

    k = case['kind']
    if k == 'dense':
        m = np.array(case['m'], float)
        return dn(m, sds(m.shape[0])), m
    a = sds(2)
    if k == 'btb_d':
        B = dn([[1, 2], [3, 5], [-1, 4]], a)
        Dg = DiagonalOperator(jnp.asarray([2.0, 4.0], D), in_structure=a)
        return B.T @ B + Dg, None
    if k == 'd_toep':
        s5 = sds(5)
        return DiagonalOperator(jnp.asarray([1.0, 2.0, 3.0, 2.0, 1.0], D), in_structure=s5) + SymmetricBandToeplitzOperator(jnp.asarray([4.0, 1.0, 0.5], D), s5, method='dense'), None
    if k == 'blockspd':
        return BlockDiagonalOperator({'x': dn([[2, 1], [1, 3]], a), 'y': dn([[3, -1, 0], [-1, 2, 1], [0, 1, 2]], sds(3))}).T @ BlockDiagonalOperator({'x': dn([[2, 1], [1, 3]], a), 'y': dn([[3, -1, 0], [-1, 2, 1], [0, 1, 2]], sds(3))}), None
    if k == 'spd_tree':
        t = [a, sds(2, 2)]
        return DenseBlockDiagonalOperator(jnp.asarray([[2, 1], [1, 3]], D), t, 'ij,j...->i...'), None
    if k == 'rect':
        return dn([[1, 2], [3, 5], [-1, 4]], a), 'nonsquare'
    if k == 'blockrect':
        return BlockRowOperator([dn([[1, 2], [3, 5]], a), dn([[0, 1], [-1, 2]], a)]), 'nonsquare'
    if k in ('eq_ravel', 'eq_reshape', 'eq_block_ravel', 'eq_dense_2x3_to_6'):
        from furax._base.axes import RavelOperator, ReshapeOperator

        s23 = jax.ShapeDtypeStruct((2, 3), D)
        if k == 'eq_ravel':
            return RavelOperator(in_structure=s23), 'nonsquare'
        if k == 'eq_reshape':
            return ReshapeOperator((3, 1), in_structure=jax.ShapeDtypeStruct((1, 3), D)), 'nonsquare'
        if k == 'eq_block_ravel':
            return BlockDiagonalOperator([RavelOperator(in_structure=s23)]), 'nonsquare'
        return RavelOperator(in_structure=s23) @ DiagonalOperator(jnp.asarray(np.arange(6.0).reshape(2, 3) + 1, D), in_structure=s23), 'nonsquare'
    if k == 'index':
        return IndexOperator(jnp.array([0, 2]), in_structure=sds(3), out_structure=sds(2)), 'nonsquare'
    raise KeyError(k)


def check_lazy(case, violations, counters):
    import lineax as lx
    import numpy as np

    from furax import Config
    from furax._base.core import InverseOperator
    from furax._base.diagonal import DiagonalOperator
    from mc import probe as P

    jax, jnp, D = _ctx()
    try:
        op, info = P.lib('constructor', build_lazy, case)
    except P.LibError as e:
        violations.append({'kind': 'construction-raises', 'case': case, 'detail': f'{e}\n{e.tb}'})
        return
    if isinstance(info, str) and info == 'nonsquare':
        try:
            with P.quiet():
                r = op.I
            violations.append({'kind': 'nonsquare-accepted', 'case': case, 'detail': f'.I of a non-square operator returned {type(r).__name__}'})
        except ValueError:
            counters['refusals'] += 1
        except Exception as e:  # noqa: BLE001
            violations.append({'kind': 'nonsquare-wrong-exception', 'case': case, 'detail': f'{type(e).__name__}: {e}'})
        return
    M = P.probe(op, cache=False).M
    n = M.shape[0]
    sv = case['solver']
    rtol = atol = 1e-3 if sv == 'cg3' else 1e-6
    kw = {'solver': lx.CG(rtol=rtol, atol=atol, max_steps=500), 'solver_callback': lambda s: None}
    if sv == 'cg6_precond':
        d = np.diag(M)
        from mc.probe import unflat

        kw['solver_options'] = {'preconditioner': _diag_like(op, 1.0 / d)}
    if sv == 'cg6_throw':
        kw['solver_throw'] = True
    try:
        with Config(**kw):
            inv = op.I
        if not isinstance(inv, InverseOperator):
            violations.append({'kind': 'unexpected-closed-form', 'case': case, 'detail': type(inv).__name__})
            return
        eps = float(np.finfo(np.dtype(D)).eps)
        cond = float(np.linalg.cond(M))
        worst = 0.0
        for j in range(n):
            y = np.zeros(n)
            y[j] = 1
            z = P.flat(P.lib('inverse.mv', inv.mv, P.unflat(y, op.in_structure())))
            if not np.all(np.isfinite(z)):
                violations.append({'kind': 'nonfinite-solution', 'case': case, 'detail': f'rhs e{j}: {z}'})
                return
            res = float(np.linalg.norm(M @ z - y))
            bound = 10 * (atol + rtol * 1.0) + 50 * eps * cond
            worst = max(worst, res / bound)
            if res > bound:
                violations.append({'kind': 'does-not-solve', 'case': case, 'detail': f'rhs e{j}: ||A z - y|| = {res:.3g} > bound {bound:.3g} (cond {cond:.3g}); z = {z}'})
                return
        # right-hand sides of other magnitudes and shapes: so small that squared entries underflow, large, and dense
        tiny = 1e-30 if D == jnp.float32 else 1e-170
        extra = [(tiny, 0), (tiny, n - 1), (-tiny, None), (1e6, 0), (3.0, None)]
        for scale, j in extra:
            y = np.full(n, scale) if j is None else np.zeros(n)
            if j is not None:
                y[j] = scale
            yq = P.flat(P.unflat(y, op.in_structure()))     # the right-hand side as the data dtype holds it
            z = P.flat(P.lib('inverse.mv', inv.mv, P.unflat(y, op.in_structure())))
            ny = float(np.linalg.norm(yq))
            if not np.all(np.isfinite(z)):
                violations.append({'kind': 'nonfinite-solution', 'case': case, 'detail': f'right-hand side {scale:g} * {"ones" if j is None else f"e{j}"} (norm {ny:.3g}): {z}'})
                return
            res = float(np.linalg.norm(M @ z - yq))
            bound = 10 * (atol + rtol * ny) + 50 * eps * cond * ny
            if res > bound:
                violations.append({'kind': 'does-not-solve', 'case': case, 'detail': f'right-hand side {scale:g} * {"ones" if j is None else f"e{j}"}: ||A z - y|| = {res:.3g} > bound {bound:.3g} (cond {cond:.3g})'})
                return
        counters['solves'] += n + len(extra)
        counters['worst_residual_permille_of_bound'] = max(counters['worst_residual_permille_of_bound'], int(1000 * worst))
        Ai = np.asarray(P.lib('inverse.as_matrix', inv.as_matrix), float)
        ref = np.linalg.inv(M)
        if Ai.shape != ref.shape or not P.close(Ai, ref, 1e-3 if D == jnp.float32 else 1e-8):
            violations.append({'kind': 'as_matrix-of-inverse', 'case': case, 'detail': f'max diff {P.maxdiff(Ai, ref):.4g}'})
        ii = P.lib('inverse of inverse', lambda: inv.I)
        if not P.close(P.probe(ii, cache=False).M, M, 1e-6):
            violations.append({'kind': 'double-inverse', 'case': case, 'detail': 'A.I.I does not denote A'})
    except P.LibError as e:
        violations.append({'kind': 'library-raises', 'case': case, 'detail': f'{e}\n{e.tb}'})


def _diag_like(op, dvals):
    """A diagonal furax operator on op's input space holding dvals (flattened order) - the preconditioner."""
    import jax

    jax_, jnp, D = _ctx()
    from furax._base.blocks import BlockDiagonalOperator
    from furax._base.diagonal import DiagonalOperator
    from mc import probe as P

    struct = op.in_structure()
    leaves, treedef = jax.tree.flatten(struct)
    if len(leaves) == 1 and jax.tree.structure(struct) == jax.tree.structure(leaves[0]):
        l = leaves[0]
        return DiagonalOperator(jnp.asarray(dvals.reshape(l.shape), D), axis_destination=tuple(range(len(l.shape))), in_structure=l)
    ops = []
    o = 0
    import numpy as np

    for l in leaves:
        n = int(np.prod(l.shape))
        ops.append(DiagonalOperator(jnp.asarray(dvals[o : o + n].reshape(l.shape), D), axis_destination=tuple(range(len(l.shape))), in_structure=l))
        o += n
    return BlockDiagonalOperator(jax.tree.unflatten(treedef, ops))


def run(phase, cases, ctx):
    violations = []
    counters = collections.Counter()
    nontrivial = set()
    for case in cases:
        if phase.startswith('closed'):
            check_closed(case, violations)
        else:
            check_lazy(case, violations, counters)
        nontrivial.add(json.dumps(case))
    wr = counters.pop('worst_residual_permille_of_bound', 0)
    return {'n': len(cases), 'violations': violations, 'counters': counters, 'nontrivial': nontrivial, 'samples': cases[:1], 'worst': [wr]}


def finalize(results, tier, seed):
    counters = collections.Counter()
    nontrivial = set()
    samples = []
    n = 0
    worst = 0
    for name, r in results.items():
        counters.update(r['counters'])
        nontrivial |= {name.split('_')[0] + k for k in r['nontrivial']}
        samples += r['samples'][:1]
        n += r['n']
        worst = max(worst, max(r['worst']))
    cov = {'evaluations': n, 'distinct_nontrivial': len(nontrivial), 'samples': samples, 'exhaustive': True,
           'closed_form_cases': results['closed']['n'], 'lazy_cases': results['lazy']['n'], 'basis_solves': counters['solves'],
           'refusals': counters['refusals'], 'worst_residual_permille_of_bound': worst,
           'rule': 'closed forms: operator kind x full parameter grid; lazy: SPD family x solver settings x all basis right-hand sides; '
                   'every case is non-trivial (an inverse is built and compared); distinct = distinct descriptors (x64 duplicates not counted)'}
    return {'coverage': cov, 'violations': [], 'assumptions': ['residual bound 10 (atol + rtol ||y||) + 50 eps cond ||y||', 'SPD operators with condition number <= 100']}
