"""C17 - sky pixelisation maps coordinates to indices consistently.

pixel2index: a concrete StokesLandscape subclass defined here; every map shape of 1-3 dimensions with dims in {1,2,3}
(constructed through shape= and through pixel_shape=); per-axis coordinates {-1, -0.6, -0.4, 0, 0.4, 0.6, 1, ..., d-1,
d-0.6, d-0.4, d} - the full Cartesian grid (exact half-integers excluded: ties are unspecified).  Loop reference:
first coordinate fastest, nearest pixel centre, -1 if outside in any dimension; integer in-map coordinates enumerate
0..N-1 bijectively; index dtype int32, int64 for a 2^16 x 2^16 landscape (64-bit mode on).
HEALPix: every pixel of every nside in {1,2,4,...} at its centre and at 12 interior points towards its corners maps to
itself and to healpy.ang2pix (ring).  Coverage: all samplings of length <= 3 over the 12 pixel centres of nside 1 and
larger samplings at nside 2, 4: equals numpy.bincount, sums to the sample count, has the map's shape.
"""
from __future__ import annotations

import collections
import itertools
import json

PROPERTY = 'C17'
LEVEL = 'exploration'
TARGET = 'checks.c17:run'
DIMS = (1, 2, 3)


def plan(tier, seed):
    shapes = [list(s) for r in (1, 2, 3) for s in itertools.product(DIMS, repeat=r)]
    p2i = [{'shape': s, 'via': v} for s in shapes for v in ('shape', 'pixel_shape')]
    nsides = [1, 2, 4, 8, 16, 32, 64] + ([128] if tier == 'thorough' else [])
    hpx = []
    for ns in nsides:
        npix = 12 * ns * ns
        nchunk = max(1, npix // 4096)
        hpx += [{'nside': ns, 'part': [k, nchunk]} for k in range(nchunk)]
    cov = [{'cov': 'all3', 'first': f} for f in range(12)] + [{'cov': 'big', 'nside': n} for n in (1, 2, 4)]
    # very fine HEALPix maps: N = 12 nside^2 beyond 2^31 (64-bit mode only: the index must be an int64)
    huge = [{'hugenside': ns} for ns in (2 ** 13, 2 ** 14, 2 ** 15)]
    late = [
        # 64-bit mode switched on after furax was imported (see mc.pool.worker_init): same cases, same oracles
        {'name': 'pixel2index_late', 'target': TARGET, 'x64': 'late', 'cases': p2i[1::3] + [{'big': True}], 'chunk': 4},
        {'name': 'healpix_late', 'target': TARGET, 'x64': 'late', 'cases': hpx[1:: (1 if tier == 'thorough' else 3)] + huge, 'chunk': 1},
        {'name': 'coverage_late', 'target': TARGET, 'x64': 'late', 'cases': cov[1::4], 'chunk': 1},
    ]
    return late + [
        {'name': 'healpix_huge_x64', 'target': TARGET, 'x64': True, 'cases': huge, 'chunk': 1},
        {'name': 'pixel2index', 'target': TARGET, 'x64': False, 'cases': p2i, 'chunk': 4},
        {'name': 'pixel2index_x64', 'target': TARGET, 'x64': True, 'cases': p2i[::3] + [{'big': True}], 'chunk': 4},
        {'name': 'healpix', 'target': TARGET, 'x64': False, 'cases': hpx + [{'f32nside': 2048}, {'f32nside': 4096}], 'chunk': 1},
        {'name': 'healpix_x64', 'target': TARGET, 'x64': True, 'cases': hpx[:: (1 if tier == 'thorough' else 3)], 'chunk': 1},
        {'name': 'coverage', 'target': TARGET, 'x64': False, 'cases': cov, 'chunk': 1},
        {'name': 'coverage_x64', 'target': TARGET, 'x64': True, 'cases': cov[::4], 'chunk': 1},
    ]


def coords_for(d):
    base = [-1.0, -0.6, -0.4, 0.0, 0.4]
    for k in range(1, d):
        base += [k - 0.4, float(k), k + 0.4]
    base += [d - 1 + 0.4, d - 0.4 + 0.0, float(d), d - 0.6]
    return sorted(set(round(c, 3) for c in base))


def run(phase, cases, ctx):
    import jax
    import jax.numpy as jnp
    import numpy as np

    from furax.landscapes import HealpixLandscape, StokesLandscape
    from furax.samplings import Sampling
    from mc import probe as P

    x64 = bool(jax.config.jax_enable_x64)
    D = jnp.float64 if x64 else jnp.float32
    violations = []
    counters = collections.Counter()
    nontrivial = set()

    class Flat(StokesLandscape):
        def world2pixel(self, theta, phi):
            return (theta, phi)

    for case in cases:
        try:
            if 'big' in case:
                land = Flat((2 ** 16, 2 ** 16), 'I', D)
                idx = land.pixel2index(jnp.asarray([0.0, 2 ** 16 - 1.0]), jnp.asarray([0.0, 2 ** 16 - 1.0]))
                want = np.array([0, 2 ** 32 - 1], dtype=np.int64)
                if np.asarray(idx).dtype != np.int64 or not np.array_equal(np.asarray(idx), want):
                    violations.append({'kind': 'index-dtype-too-narrow', 'case': case, 'detail': f'{np.asarray(idx).dtype} {np.asarray(idx)} for a 2^32-pixel landscape'})
                small = Flat((4, 4), 'I', D).pixel2index(jnp.asarray([1.0]), jnp.asarray([2.0]))
                if np.asarray(small).dtype != np.int32:
                    violations.append({'kind': 'index-dtype', 'case': case, 'detail': f'{np.asarray(small).dtype} for a 16-pixel landscape'})
                nontrivial.add(json.dumps(case))
                continue
            if 'shape' in case:
                shape = tuple(case['shape'])
                land = Flat(shape, 'IQU', D) if case['via'] == 'shape' else Flat(stokes='IQU', dtype=D, pixel_shape=shape[::-1])
                pshape = shape[::-1]
                N = int(np.prod(shape))
                probs = []
                if land.shape != shape or land.pixel_shape != pshape or len(land) != N or land.size != 3 * N:
                    probs.append(f'shape/pixel_shape/len/size = {land.shape}/{land.pixel_shape}/{len(land)}/{land.size}')
                if not P.same_struct(land.structure, type(land.structure)(*[jax.ShapeDtypeStruct(shape, D)] * 3)):
                    probs.append(f'structure {land.structure}')
                axes = [coords_for(d) for d in pshape]
                pts = list(itertools.product(*axes))
                arrs = [jnp.asarray([p[k] for p in pts], D) for k in range(len(pshape))]
                got = np.asarray(land.pixel2index(*arrs))
                want = []
                for p in pts:
                    r = [int(np.floor(c + 0.5)) for c in p]
                    if all(0 <= ri < d for ri, d in zip(r, pshape)):
                        idx, stride = 0, 1
                        for ri, d in zip(r, pshape):
                            idx += ri * stride
                            stride *= d
                        want.append(idx)
                    else:
                        want.append(-1)
                want = np.array(want)
                counters['coordinates'] += len(pts)
                if got.shape != want.shape or not np.array_equal(got, want):
                    bad = np.nonzero(got != want)[0][:4]
                    probs.append(f'pixel2index differs at {[(pts[b], int(got[b]), int(want[b])) for b in bad]}')
                if got.dtype != np.int32:
                    probs.append(f'index dtype {got.dtype}')
                ints = list(itertools.product(*[range(d) for d in pshape]))
                gi = np.asarray(land.pixel2index(*[jnp.asarray([p[k] for p in ints], D) for k in range(len(pshape))]))
                if sorted(gi.tolist()) != list(range(N)):
                    probs.append(f'integer in-map coordinates are not in bijection with 0..N-1: {sorted(gi.tolist())}')
                # the same integer coordinates handed over as NumPy integer arrays, twice: same answer, arrays left alone
                for idt in (np.int32, np.int64):
                    carrs = [np.array([p[k] for p in ints], dtype=idt) for k in range(len(pshape))]
                    keep = [c.copy() for c in carrs]
                    g1 = np.asarray(land.pixel2index(*carrs))
                    g2 = np.asarray(land.pixel2index(*carrs))
                    if not np.array_equal(g1, gi) or not np.array_equal(g2, gi):
                        probs.append(f'NumPy {np.dtype(idt)} coordinates: first call {g1.tolist()[:8]}, second call on the same arrays {g2.tolist()[:8]}, expected {gi.tolist()[:8]}')
                    if any(not np.array_equal(c, k_) for c, k_ in zip(carrs, keep)):
                        probs.append(f'NumPy {np.dtype(idt)} coordinate arrays were modified by pixel2index')
                # row-major consistency with the map array: index i addresses map.ravel()[i]
                m = np.arange(N).reshape(shape)
                for p, i in zip(ints, gi):
                    if m[tuple(reversed(p))] != i:
                        probs.append(f'pixel {p} -> {i} but the map element at {tuple(reversed(p))} has flat position {m[tuple(reversed(p))]}')
                        break
                for pr in probs:
                    violations.append({'kind': 'pixel2index', 'case': case, 'detail': pr})
                nontrivial.add(json.dumps(case))
                continue
            if 'f32nside' in case:
                # fine maps in 32-bit mode: pixel numbers beyond 2**24 (not all representable as float32) at their centres
                import healpy as hp

                ns = case['f32nside']
                npix = 12 * ns * ns
                pix = np.unique(np.concatenate([np.arange(0, npix, npix // 3000) | 1, np.arange(2 ** 24 - 5, 2 ** 24 + 40), np.arange(npix - 40, npix)]))
                pix = pix[pix < npix]
                th, ph = hp.pix2ang(ns, pix)
                th32, ph32 = np.asarray(th, np.float32), np.asarray(ph, np.float32)
                ok_ref = hp.ang2pix(ns, th32.astype(np.float64), ph32.astype(np.float64)) == pix
                for eps in (3e-7, -3e-7):   # the float32 angle must be well inside the pixel for the comparison to mean anything
                    ok_ref &= hp.ang2pix(ns, np.clip(th32.astype(np.float64) + eps * 4, 1e-9, np.pi - 1e-9), ph32.astype(np.float64) + eps * 4) == pix
                land = HealpixLandscape(ns, 'I', jnp.float32)
                got = np.asarray(land.world2index(jnp.asarray(th32), jnp.asarray(ph32)))
                counters['directions'] += int(ok_ref.sum())
                if not np.array_equal(got[ok_ref], pix[ok_ref]):
                    bad = np.nonzero((got != pix) & ok_ref)[0]
                    violations.append({'kind': 'healpix-world2index-float32', 'case': case,
                                       'detail': f'nside {ns}: {len(bad)} of {int(ok_ref.sum())} pixel centres map elsewhere, e.g. pixels {pix[bad[:4]].tolist()} -> {got[bad[:4]].tolist()}'})
                nontrivial.add(json.dumps(case))
                continue
            if 'hugenside' in case:
                import healpy as hp

                ns = case['hugenside']
                npix = 12 * ns * ns
                marks = [0, 4 * ns, npix // 3, npix // 2, 2 ** 31, 2 ** 32, 2 * npix // 3, npix - 4 * ns, npix - 9]
                pix = np.unique(np.concatenate([np.arange(m - 8, m + 9) for m in marks]))
                pix = pix[(pix >= 0) & (pix < npix)]
                th, ph = hp.pix2ang(ns, pix)
                land = HealpixLandscape(ns, 'I', D)
                got = np.asarray(land.world2index(jnp.asarray(th, D), jnp.asarray(ph, D)))
                counters['directions'] += len(pix)
                ok_ref = hp.ang2pix(ns, th, ph) == pix
                if got.dtype != (np.int64 if npix > 2 ** 31 - 1 else got.dtype) or not np.array_equal(got[ok_ref], pix[ok_ref]):
                    bad = np.nonzero((got != pix) & ok_ref)[0][:4]
                    violations.append({'kind': 'healpix-world2index-huge', 'case': case,
                                       'detail': f'nside {ns} ({npix} pixels): index dtype {got.dtype}; pixels {pix[bad].tolist()} map to {got[bad].tolist()}'})
                nontrivial.add(json.dumps(case))
                continue
            if 'nside' in case and 'part' in case:
                import healpy as hp

                ns = case['nside']
                npix = 12 * ns * ns
                k, nchunk = case['part']
                pix = np.arange(npix)[k::nchunk]
                land = HealpixLandscape(ns, 'I', D)
                lands = [land]
                if x64:   # a landscape storing float32 maps must still locate float64 directions exactly
                    lands.append(HealpixLandscape(ns, 'I', jnp.float32))
                if ns <= 8:   # the frequency landscape shares the HEALPix pixelisation (its map has an extra leading axis)
                    from furax.landscapes import FrequencyLandscape

                    lands.append(FrequencyLandscape(ns, np.array([10.0, 20.0, 30.0]), 'IQU', D))
                centre = np.array(hp.pix2vec(ns, pix)).T
                pts = [centre]
                corners = hp.boundaries(ns, pix, step=1)  # (npix, 3, 4)
                for c in range(4):
                    for t in (0.3, 0.6, 0.85):
                        v = centre * (1 - t) + corners[:, :, c] * t
                        pts.append(v / np.linalg.norm(v, axis=1, keepdims=True))
                if x64:   # float64 only: points 1e-5 (relative) inside the pixel towards its corners and edge mid-points
                    for c in range(4):
                        for tgt in (corners[:, :, c], (corners[:, :, c] + corners[:, :, (c + 1) % 4]) / 2):
                            v = centre * 1e-5 + tgt * (1 - 1e-5)
                            pts.append(v / np.linalg.norm(v, axis=1, keepdims=True))
                for j, v in enumerate(pts):
                  for land in lands:
                    th, ph = hp.vec2ang(v)
                    got = np.asarray(land.world2index(jnp.asarray(th, D), jnp.asarray(ph, D)))
                    ref = hp.ang2pix(ns, th, ph)
                    counters['directions'] += len(pix)
                    if not np.array_equal(ref, pix):
                        continue  # the reference itself is ambiguous there (never observed)
                    if not np.array_equal(got, pix):
                        bad = np.nonzero(got != pix)[0][:4]
                        violations.append({'kind': 'healpix-world2index', 'case': case,
                                           'detail': f'point set {j}: pixels {pix[bad].tolist()} at (theta,phi) {[(float(th[b]), float(ph[b])) for b in bad]} map to {got[bad].tolist()}'})
                        break
                nontrivial.add(json.dumps(case))
                continue
            if 'cov' in case:
                import healpy as hp

                if case['cov'] == 'all3':
                    land = HealpixLandscape(1, 'IQU', D)
                    th12, ph12 = hp.pix2ang(1, np.arange(12))
                    seqs = [[case['first']]] + [[case['first'], b] for b in range(12)] + [[case['first'], b, c] for b in range(12) for c in range(12)]
                else:
                    ns = case['nside']
                    land = HealpixLandscape(ns, 'QU', D)
                    npix = 12 * ns * ns
                    th12, ph12 = hp.pix2ang(ns, np.arange(npix))
                    seqs = [list(range(npix)), [(i * 7) % npix for i in range(3 * npix)], [0] * 5 + [npix - 1] * 2, list(range(0, npix, 3)) * 2,
                            [[(i * 5 + 3 * d) % npix for i in range(6)] for d in range(2)], [[(7 * d + i) % npix] for d, i in zip(range(4), (0, 5, 9, 11))],
                            [[[0, npix - 1], [3 % npix, 4 % npix]], [[5 % npix, 0], [npix - 1, npix - 1]]]]
                for s in seqs:
                    s = np.array(s)
                    samp = Sampling(jnp.asarray(th12[s], D), jnp.asarray(ph12[s], D), jnp.zeros(s.shape, D))
                    cov = np.asarray(land.get_coverage(samp))
                    want = np.bincount(s.ravel(), minlength=len(land)).reshape(land.shape)
                    counters['samplings'] += 1
                    if cov.shape != land.shape or not np.array_equal(cov, want) or cov.sum() != s.size:
                        violations.append({'kind': 'coverage', 'case': case, 'detail': f'sampling of pixels {s.ravel()[:8].tolist()} (shape {s.shape})...: coverage {cov.ravel()[:12]} (sum {cov.sum()}) vs histogram {want.ravel()[:12]} (samples {s.size})'})
                        break
                nontrivial.add(json.dumps(case))
        except Exception as e:  # noqa: BLE001
            err = P.LibError('landscape', e)
            violations.append({'kind': 'library-raises', 'case': case, 'detail': f'{err}\n{err.tb}'})
    return {'n': len(cases), 'violations': violations, 'counters': counters, 'nontrivial': nontrivial, 'samples': cases[:1]}


def finalize(results, tier, seed):
    counters = collections.Counter()
    nontrivial = set()
    samples = []
    n = 0
    for name, r in results.items():
        counters.update(r['counters'])
        nontrivial |= {name + k for k in r['nontrivial']}
        samples += r['samples'][:1]
        n += r['n']
    cov = {'evaluations': n, 'distinct_nontrivial': len(nontrivial), 'samples': samples, 'exhaustive': True,
           'pixel_coordinates': counters['coordinates'], 'healpix_directions': counters['directions'], 'coverage_samplings': counters['samplings'],
           'rule': 'pixel2index: map shape x construction route (full coordinate grid inside); healpix: (nside, slice of pixels) x 13 points per pixel; '
                   'coverage: samplings; per 64-bit mode; all non-trivial',
           'note_int64': 'with 64-bit mode off JAX cannot represent an int64 index at all; the wide-index claim is checked with the mode on only'}
    return {'coverage': cov, 'violations': [], 'assumptions': ['healpy (ring ordering) is the HEALPix reference', 'exact half-integer coordinates excluded (ties unspecified)']}
