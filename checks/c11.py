"""C11 - diagonal operators multiply along the requested axes.

Full grid: leaf shapes of rank 1-3 with dims in {1,2,3} (39) x value shapes of rank 1-2 (12) x every
axis_destination form: each int in [-4,3] and each tuple of the right length over [-4,3] (duplicates, permutations,
beyond-rank left and right) x both classes.  A loop-based numpy reference decides legal / illegal (no duplicate
normalised axis, broadcastable, and for the strict class: result shape == leaf shape) and, if legal, the product.
Oracle: constructor raises <=> reference says illegal; otherwise mv == reference (exact), as_matrix (strict class),
DiagonalInverseOperator.diagonal == element-wise pseudo-inverse.  Scalar / pytree values must raise.  Two-leaf pytrees
with leaves of different rank.
"""
from __future__ import annotations

import collections
import itertools
import json

PROPERTY = 'C11'
LEVEL = 'exploration'
TARGET = 'checks.c11:run'
DIMS = (1, 2, 3)
LEAFS = [list(s) for r in (1, 2, 3) for s in itertools.product(DIMS, repeat=r)]
VALS = [list(s) for r in (1, 2) for s in itertools.product(DIMS, repeat=r)]
TREE_LEAFS = [[2], [3], [1, 3], [2, 3], [3, 2], [2, 1, 3], [3, 2, 2], [1, 2, 3]]


def axis_forms(vrank, tier='thorough'):
    lo, hi = (-4, 3) if tier == 'thorough' or vrank == 1 else (-3, 2)
    return list(range(-4, 4)) + [list(t) for t in itertools.product(range(lo, hi + 1), repeat=vrank)]


def plan(tier, seed):
    leafs = LEAFS if tier == 'thorough' else [l for l in LEAFS if len(l) < 3 or 1 in l or l in ([2, 3, 2], [3, 2, 3], [2, 2, 3])]
    single = [{'leaf': l, 'vals': v} for l in leafs for v in VALS]
    trees = [{'leafs': [a, b], 'vals': v} for a, b in itertools.product(TREE_LEAFS, repeat=2) if len(a) != len(b) for v in ([2], [3], [2, 3], [1, 3])]
    same_rank = [([3], [1]), ([1], [3]), ([2, 3], [1, 3]), ([2, 3], [2, 1]), ([1, 3], [2, 3]), ([2, 3], [2, 3]), ([3, 2], [2, 3]), ([2, 1, 3], [2, 2, 3]), ([2, 2, 3], [2, 1, 3])]
    trees += [{'leafs': [a, b], 'vals': v} for a, b in same_rank for v in ([2], [3], [2, 3], [1, 3], [1])]
    r3_vals = [[2, 2, 2], [2, 3, 2], [1, 2, 3]]
    r3_leafs = [[2, 2, 2], [2, 3, 2], [3, 2, 2], [1, 2, 3], [2, 3], [2, 2]] + ([[2, 2, 3], [3, 2, 3], [2, 1, 2]] if tier == 'thorough' else [])
    rank3 = [{'leaf': l, 'vals': v, 'r3': True} for l in r3_leafs for v in r3_vals]
    misc = [{'misc': k} for k in ('scalar', 'pytree', 'inverse_zero', 'inverse_tree', 'integers', 'axes_as_list')]
    return [
        {'name': 'grid', 'target': TARGET, 'x64': False, 'cases': single, 'chunk': 2},
        {'name': 'trees', 'target': TARGET, 'x64': False, 'cases': trees, 'chunk': 4},
        {'name': 'rank3', 'target': TARGET, 'x64': False, 'cases': rank3, 'chunk': 1},
        {'name': 'misc', 'target': TARGET, 'x64': False, 'cases': misc, 'chunk': 1},
    ]


# ------------------------------------------------------------------------------------------ reference
def ref_legal(vshape, axes_spec, leaf_shape, strict):
    nd = len(vshape)
    if isinstance(axes_spec, int):
        axes = tuple(range(axes_spec, axes_spec + nd)) if axes_spec >= 0 else tuple(range(axes_spec - nd + 1, axes_spec + 1))
    else:
        axes = tuple(axes_spec)
    if len(axes) != nd:
        return None
    r = len(leaf_shape)
    norm = tuple(a if a >= 0 else r + a for a in axes)
    if len(set(norm)) != len(norm):
        return None
    L = max(0, -min(norm))
    R = max(0, max(norm) - r + 1)
    rank = L + r + R
    vfull = [1] * rank
    for i, a in enumerate(norm):
        vfull[a + L] = vshape[i]
    xfull = [1] * L + list(leaf_shape) + [1] * R
    out = []
    for v, x in zip(vfull, xfull):
        if v == x or v == 1 or x == 1:
            out.append(max(v, x))
        else:
            return None
    out = tuple(out)
    if strict and out != tuple(leaf_shape):
        return None
    return norm, L, R, out


def ref_apply(values, norm, L, R, out, x):
    import numpy as np

    res = np.zeros(out)
    r = x.ndim
    for idx in itertools.product(*[range(d) for d in out]):
        vi = tuple(idx[a + L] if values.shape[i] != 1 else 0 for i, a in enumerate(norm))
        xi = tuple(idx[L + k] if x.shape[k] != 1 else 0 for k in range(r))
        res[idx] = values[vi] * x[xi]
    return res


PRIMES = [2, 3, 5, 7, 11, 13, 17, 19, 23, 29, 31, 37, 41, 43, 47, 53, 59, 61]


def data(shape, start):
    import numpy as np

    n = int(np.prod(shape))
    return np.array([PRIMES[(k + start) % len(PRIMES)] * (-1 if k % 2 else 1) for k in range(n)], dtype=np.float32).reshape(shape)


def run(phase, cases, ctx):
    import jax
    import jax.numpy as jnp
    import numpy as np

    from furax._base.diagonal import BroadcastDiagonalOperator, DiagonalInverseOperator, DiagonalOperator
    from mc import probe as P

    f32 = jnp.float32
    violations = []
    counters = collections.Counter()
    nontrivial = set()
    classes = (('broadcast', BroadcastDiagonalOperator, False), ('strict', DiagonalOperator, True))
    for case in cases:
        if 'misc' in case:
            a = jax.ShapeDtypeStruct((2,), f32)
            k = case['misc']
            if k == 'integers':   # integer (or boolean) values on integer data stay integers, exactly
                for cls_name, cls, _ in classes:
                    iv = jnp.asarray([16777217, -3], jnp.int32)
                    op = cls(iv, in_structure=jax.ShapeDtypeStruct((2,), jnp.int32))
                    y = np.asarray(op.mv(jnp.asarray([1, 5], jnp.int32)))
                    if y.dtype != np.int32 or y.tolist() != [16777217, -15]:
                        violations.append({'kind': 'integer-values', 'case': case, 'detail': f'{cls_name}: int32 values on int32 data give {y.dtype} {y.tolist()}'})
                    mk = jnp.asarray([True, False])
                    opb = cls(mk, in_structure=jax.ShapeDtypeStruct((2,), jnp.int32))
                    yb = np.asarray(opb.mv(jnp.asarray([7, 9], jnp.int32)))
                    if yb.dtype != np.int32 or yb.tolist() != [7, 0]:
                        violations.append({'kind': 'integer-values', 'case': case, 'detail': f'{cls_name}: boolean values on int32 data give {yb.dtype} {yb.tolist()}'})
                nontrivial.add(json.dumps(case))
                continue
            if k == 'axes_as_list':
                # "the result never depends on anything but the values, the axes and the input": the axes given as a Python
                # LIST that the caller goes on using (reverses, overwrites) after the operator was built
                vals = np.array([[1.0, 2.0, 3.0], [4.0, 5.0, 6.0], [7.0, 8.0, 10.0]], np.float32)
                x = jnp.asarray(np.arange(9, dtype=np.float32).reshape(3, 3) + 1)
                for cls_name, cls, _ in classes:
                    for first, then in (([0, 1], 'reverse'), ([1, 0], 'reverse'), ([-2, -1], 'reverse'), ([0, 1], 'overwrite')):
                        axes = list(first)
                        want = np.asarray(cls(jnp.asarray(vals), axis_destination=tuple(first), in_structure=jax.ShapeDtypeStruct((3, 3), f32)).mv(x))
                        op = cls(jnp.asarray(vals), axis_destination=axes, in_structure=jax.ShapeDtypeStruct((3, 3), f32))
                        y1 = np.asarray(op.mv(x))
                        if then == 'reverse':
                            axes.reverse()
                        else:
                            axes[0], axes[1] = 1, 0
                        y2 = np.asarray(op.mv(x))
                        M2 = np.asarray(op.as_matrix()) @ np.asarray(x).ravel()
                        if not np.array_equal(y1, want) or not np.array_equal(y2, want) or not np.array_equal(M2.reshape(3, 3), want):
                            violations.append({'kind': 'depends-on-the-callers-list', 'case': case,
                                               'detail': f'{cls_name}, axes given as the list {first}, list then changed ({then}): before {y1.ravel()[:4]}, after {y2.ravel()[:4]}, as_matrix {M2[:4]}, with a tuple {want.ravel()[:4]}'})
                nontrivial.add(json.dumps(case))
                continue
            if k in ('scalar', 'pytree'):
                bad = jnp.asarray(2.0, f32) if k == 'scalar' else {'u': jnp.asarray([1.0, 2.0], f32)}
                for name, cls, _ in classes:
                    try:
                        cls(bad, in_structure=a)
                        violations.append({'kind': 'accepts-illegal-values', 'case': case, 'detail': f'{name}: {k} values accepted'})
                    except (ValueError, TypeError):
                        counters['rejections'] += 1
            else:
                st = a if k == 'inverse_zero' else {'u': a, 'v': jax.ShapeDtypeStruct((2, 3), f32)}
                for vals in ([2.0, 0.0], [0.0, 0.0], [-4.0, 0.5]):
                    op = DiagonalOperator(jnp.asarray(vals, f32), axis_destination=0, in_structure=st)
                    inv = op.I
                    d = np.asarray(inv.diagonal)
                    want = np.array([0.0 if v == 0 else 1.0 / v for v in vals], dtype=np.float32)
                    if not isinstance(inv, DiagonalInverseOperator) or not np.all(np.isfinite(d)) or not np.array_equal(d, want):
                        violations.append({'kind': 'inverse-diagonal', 'case': case, 'detail': f'values {vals}: inverse diagonal {d}, element-wise pseudo-inverse {want}'})
                    M = P.probe(inv, cache=False).M
                    if not np.all(np.isfinite(M)):
                        violations.append({'kind': 'inverse-nonfinite', 'case': case, 'detail': f'values {vals}'})
            nontrivial.add(json.dumps(case))
            continue
        vshape = case['vals']
        v = data(vshape, 3)
        leafs = [case['leaf']] if 'leaf' in case else case['leafs']
        xs = [data(ls, 7 + i) for i, ls in enumerate(leafs)]
        if 'only' in case:
            forms = [case['only']['ax']]
        elif case.get('r3'):
            forms = [list(t) for t in itertools.product(range(-3, 3), repeat=3)] + [0, -1]
        else:
            forms = axis_forms(len(vshape), ctx.get('tier', 'thorough'))
        for ax in forms:
            for name, cls, strict in classes:
                if 'only' in case and case['only']['cls'] != name:
                    continue
                counters['constructions'] += 1
                exps = [ref_legal(vshape, ax, ls, strict) for ls in leafs]
                legal = all(e is not None for e in exps)
                structs = [jax.ShapeDtypeStruct(tuple(ls), f32) for ls in leafs]
                in_struct = structs[0] if 'leaf' in case else {'p': structs[0], 'q': structs[1]}
                one = dict(case, only={'ax': ax, 'cls': name})
                try:
                    op = cls(jnp.asarray(v), axis_destination=ax if isinstance(ax, int) else tuple(ax), in_structure=in_struct)
                    built = True
                except (ValueError, TypeError, IndexError):
                    built = False
                except Exception as e:  # noqa: BLE001
                    violations.append({'kind': 'unexpected-exception', 'case': one, 'detail': f'{type(e).__name__}: {e}'})
                    continue
                if built != legal:
                    violations.append({'kind': 'accepts-illegal' if built else 'rejects-legal', 'case': one,
                                       'detail': f'{name} diagonal, values {vshape} on leaf(s) {leafs}, axis_destination={ax}: constructor {"accepts" if built else "raises"} but the reference says {"legal" if legal else "illegal"}'})
                    continue
                if not legal:
                    counters['illegal_rejected'] += 1
                    continue
                counters['legal'] += 1
                nontrivial.add(json.dumps([leafs, vshape, ax, name]))
                try:
                    x_in = jnp.asarray(xs[0]) if 'leaf' in case else {'p': jnp.asarray(xs[0]), 'q': jnp.asarray(xs[1])}
                    y = op.mv(x_in)
                    ys = [y] if 'leaf' in case else [y['p'], y['q']]
                    for exp, x, yy, ls in zip(exps, xs, ys, leafs):
                        want = ref_apply(v, *exp, x)
                        got = np.asarray(yy)
                        if got.shape != want.shape or not np.array_equal(got, want):
                            violations.append({'kind': 'wrong-product', 'case': one,
                                               'detail': f'{name}, values {vshape}, leaf {ls}, axes {ax}: got shape {got.shape} {got.ravel()[:8]}, reference shape {want.shape} {want.ravel()[:8]}'})
                            break
                    else:
                        # the announced output structure is the structure of the product (both classes, every layout)
                        decl = [(tuple(l.shape), np.dtype(l.dtype)) for l in jax.tree.leaves(op.out_structure())]
                        act = [(tuple(np.shape(yy)), np.dtype(yy.dtype)) for yy in ys]
                        if decl != act:
                            violations.append({'kind': 'out_structure-not-the-product', 'case': one,
                                               'detail': f'{name}, values {vshape}, leaf(s) {leafs}, axes {ax}: out_structure() announces {decl}, mv returns {act}'})
                        if strict and 'leafs' in case:
                            A = np.asarray(op.as_matrix(), float)
                            import scipy.linalg

                            blocks = [np.diag(np.broadcast_to(ref_apply(v, *exp, np.ones(ls, np.float32)), tuple(ls)).ravel()) for exp, ls in zip(exps, leafs)]
                            want = scipy.linalg.block_diag(*blocks)
                            if A.shape != want.shape or not np.array_equal(A, want):
                                violations.append({'kind': 'as_matrix', 'case': one, 'detail': f'as_matrix() on a pytree with leaves {leafs} differs from the laid-out values: diag {np.diag(A)[:10]} vs {np.diag(want)[:10]}'})
                        if strict and 'leaf' in case:
                            A = np.asarray(op.as_matrix(), float)
                            want = np.diag(np.broadcast_to(ref_apply(v, *exps[0], np.ones(leafs[0], np.float32)), tuple(leafs[0])).ravel())
                            if A.shape != want.shape or not np.array_equal(A, want):
                                violations.append({'kind': 'as_matrix', 'case': one, 'detail': f'as_matrix() differs from diag of the laid-out values: {np.diag(A)[:8]} vs {np.diag(want)[:8]}'})
                            inv = op.I
                            d_inv = np.asarray(inv.diagonal)
                            if not np.array_equal(d_inv, np.where(v != 0, 1 / v, 0).astype(np.float32)):
                                violations.append({'kind': 'inverse-diagonal', 'case': one, 'detail': f'{d_inv}'})
                except Exception as e:  # noqa: BLE001
                    err = P.LibError('mv/as_matrix', e)
                    violations.append({'kind': 'library-raises', 'case': one, 'detail': f'{err}\n{err.tb}'})
    return {'n': len(cases), 'violations': violations, 'counters': counters, 'nontrivial': nontrivial, 'samples': cases[:1]}


def finalize(results, tier, seed):
    counters = collections.Counter()
    nontrivial = set()
    samples = []
    for r in results.values():
        counters.update(r['counters'])
        nontrivial |= r['nontrivial']
        samples += r['samples'][:1]
    cov = {'evaluations': counters['constructions'] + results['misc']['n'], 'distinct_nontrivial': len(nontrivial), 'samples': samples, 'exhaustive': True,
           'legal': counters['legal'], 'illegal_rejected': counters['illegal_rejected'],
           'rule': 'one evaluation = one constructor call (leaf shape(s) x value shape x axis form x class); non-trivial = legal per the loop '
                   'reference, so that the product was computed and compared element by element'}
    return {'coverage': cov, 'violations': [], 'assumptions': ['numpy broadcasting semantics implemented by explicit loops in the reference']}
