"""C03 - transpose is the exact adjoint of every operator.

For every specimen of the universe and every well-typed depth-<=2 composite (A@B, A+B, A-B, k*(A@B), block row /
diagonal / column in list, dict and tuple containers), in both 64-bit modes:
   probe(A.T) == probe(A)^T   (this IS <Ax,y> = <x,A^T y> on all basis pairs), structures swapped,
   probe(A.T.T) == probe(A).
The probes apply the real mv eagerly to every basis vector; nothing is sampled.
"""
from __future__ import annotations

PROPERTY = 'C03'
LEVEL = 'exploration'
TARGET = 'checks.c03:run'


def plan(tier, seed):
    from mc import universe as U

    return [
        {'name': 'x32', 'target': TARGET, 'x64': False, 'cases': U.cases(tier, ('f32',))},
        {'name': 'x64', 'target': TARGET, 'x64': True, 'cases': U.cases('quick' if tier == 'quick' else tier, ('f64',)) if tier == 'thorough' else
            [c for c in U.cases(tier, ('f64',)) if 'b' not in c]},
    ]


def contains_no_transpose(desc):
    from mc import universe as U

    return desc['a'] in U.NO_TRANSPOSE or desc.get('b') in U.NO_TRANSPOSE


def oracle(desc, op, exact):
    import numpy as np

    from mc import probe as P

    if contains_no_transpose(desc):
        return [], False
    probs = []
    pa = P.probe(op, cache=False)
    T = P.lib('transpose', lambda: op.T)
    tol = 0.0 if exact else P.tol_for(*P.op_dtypes(op))
    import numpy as _np

    if any(_np.dtype(d) == _np.float16 for d in P.op_dtypes(op)):
        tol = 2e-3   # the transposed operator has to return float16 values: equality holds up to that dtype's rounding
    if not P.same_struct(T.in_structure(), op.out_structure()) or not P.same_struct(T.out_structure(), op.in_structure()):
        probs.append(('transpose-structure', f'A: {op.in_structure()} -> {op.out_structure()} but A.T: {T.in_structure()} -> {T.out_structure()}'))
        return probs, True
    pt = P.probe(T, cache=False)
    if not P.close(pt.M, pa.M.T, tol or 1e-12):
        probs.append(('not-adjoint', f'max |M(A.T) - M(A)^T| = {P.maxdiff(pt.M, pa.M.T):.4g}; M(A)^T={P.mat_summary(pa.M.T, 48)} M(A.T)={P.mat_summary(pt.M, 48)}'))
    TT = P.lib('transpose of transpose', lambda: T.T)
    ptt = P.probe(TT, cache=False)
    if not P.close(ptt.M, pa.M, tol or 1e-12):
        probs.append(('double-transpose', f'max |M(A.T.T) - M(A)| = {P.maxdiff(ptt.M, pa.M):.4g}'))
    if not P.same_struct(TT.in_structure(), op.in_structure()) or not P.same_struct(TT.out_structure(), op.out_structure()):
        probs.append(('double-transpose-structure', f'{TT.in_structure()} -> {TT.out_structure()}'))
    nontrivial = not np.array_equal(pa.M, pa.M.T) if pa.M.shape[0] == pa.M.shape[1] else True
    return probs, nontrivial


def run(phase, cases, ctx):
    from mc import unirun

    return unirun.run(cases, oracle)


def finalize(results, tier, seed):
    from mc import unirun

    cov = unirun.coverage(results, 'one case = a specimen or an ordered pair of specimens; every well-typed composite form of the pair is '
                          'checked; non-trivial = the probed matrix is not symmetric (so a missing transposition is visible)')
    return {'coverage': cov, 'violations': [], 'assumptions': ['linearity (C04)', 'transposes of the iterative lazy inverse are excluded, as the property states']}
