"""C03 - transpose is the exact adjoint of every operator.

For every specimen of the universe and every well-typed depth-<=2 composite (A@B, A+B, A-B, k*(A@B), block row /
diagonal / column in list, dict and tuple containers), in both 64-bit modes:
   probe(A.T) == probe(A)^T   (this IS <Ax,y> = <x,A^T y> on all basis pairs), structures swapped,
   probe(A.T.T) == probe(A);
   a second request for A.T, A.T.T.T, vmap(A.T.mv) and A.T passed as an argument to a jitted function act as probe(A)^T too.
The probes apply the real mv eagerly to every basis vector; nothing is sampled.
"""
from __future__ import annotations

PROPERTY = 'C03'
LEVEL = 'exploration'
TARGET = 'checks.c03:run'


def plan(tier, seed):
    from mc import universe as U

    return [
        {'name': 'toast_large', 'target': 'checks.c03:run_toast_large', 'x64': False, 'cases': [{'toast_n': n} for n in (300, 46337, 46349, 50021, 70001, 150001)], 'chunk': 1},
        {'name': 'toast_large_x64', 'target': 'checks.c03:run_toast_large', 'x64': True, 'cases': [{'toast_n': n} for n in (46349, 70001)], 'chunk': 1},
        {'name': 'mutable', 'target': 'checks.c03:run_mutable', 'x64': False, 'cases': [{'np_params': n, 'use_first': u} for n in MUTABLE for u in (True, False)], 'chunk': 2},
        {'name': 'x32', 'target': TARGET, 'x64': False, 'cases': U.cases(tier, ('f32',))},
        {'name': 'x64', 'target': TARGET, 'x64': True, 'cases': U.cases('quick' if tier == 'quick' else tier, ('f64',)) if tier == 'thorough' else
            [c for c in U.cases(tier, ('f64',)) if 'b' not in c]},
    ]


# operators built from NumPy arrays keep (some of) them by reference: the caller can still write into them
MUTABLE = ['diag', 'bdiag', 'bdiag_left', 'dense', 'rot', 'rot_T', 'hwp', 'pol', 'hom', 'toep', 'index', 'pack', 'block_of_np', 'sum_of_np']


def build_mutable(name):
    import jax
    import jax.numpy as jnp
    import numpy as np

    from furax._base.blocks import BlockDiagonalOperator
    from furax._base.core import HomothetyOperator
    from furax._base.dense import DenseBlockDiagonalOperator
    from furax._base.diagonal import BroadcastDiagonalOperator, DiagonalOperator
    from furax._base.indices import IndexOperator
    from furax._base.linear import PackOperator
    from furax.landscapes import StokesPyTree
    from furax.operators.hwp import HWPOperator
    from furax.operators.polarizers import LinearPolarizerOperator
    from furax.operators.qu_rotations import QURotationOperator
    from furax.operators.toeplitz import SymmetricBandToeplitzOperator

    f32 = np.float32
    a, m = jax.ShapeDtypeStruct((3,), jnp.float32), jax.ShapeDtypeStruct((2, 3), jnp.float32)
    S = StokesPyTree.class_for('IQU').structure_for((3,), jnp.float32)
    v = np.array([2.0, 4.0, 5.0], f32)
    ang = np.array([0.3, -1.1, 2.0], f32)
    if name == 'diag':
        return DiagonalOperator(v, in_structure=a), [v]
    if name == 'bdiag':
        return BroadcastDiagonalOperator(v, axis_destination=-1, in_structure=m), [v]
    if name == 'bdiag_left':
        w = np.array([[1.0, 2.0, 3.0], [4.0, 5.0, 6.0]], f32)
        return BroadcastDiagonalOperator(w, axis_destination=(-2, -1), in_structure=a), [w]
    if name == 'dense':
        w = np.array([[1.0, 2.0, 0], [3.0, 5.0, 1], [0, 1, 4]], f32)
        return DenseBlockDiagonalOperator(w, a, 'ij,j->i'), [w]
    if name == 'rot':
        return QURotationOperator(ang, S), [ang]
    if name == 'rot_T':
        return QURotationOperator(ang, S).T, [ang]
    if name == 'hwp':
        return HWPOperator.create(shape=(3,), stokes='IQU', angles=ang), [ang]
    if name == 'pol':
        return LinearPolarizerOperator.create(shape=(3,), stokes='IQU', angles=ang), [ang]
    if name == 'hom':
        k = np.array(2.0, f32)
        return HomothetyOperator(k, a), [k]
    if name == 'toep':
        b = np.array([4.0, 1.0, 0.5], f32)
        return SymmetricBandToeplitzOperator(b, a, method='dense'), [b]
    if name == 'index':
        i = np.array([0, 2, 2, 1])
        return IndexOperator(i, in_structure=a), [i]
    if name == 'pack':
        k = np.array([True, False, True])
        return PackOperator(k, a), [k]
    if name == 'block_of_np':
        w = np.array([[1.0, 2.0, 0], [3.0, 5.0, 1], [0, 1, 4]], f32)
        return BlockDiagonalOperator([DiagonalOperator(v, in_structure=a), DenseBlockDiagonalOperator(w, a, 'ij,j->i')]), [v, w]
    if name == 'sum_of_np':
        w = np.array([[1.0, 2.0, 0], [3.0, 5.0, 1], [0, 1, 4]], f32)
        return DiagonalOperator(v, in_structure=a) + DenseBlockDiagonalOperator(w, a, 'ij,j->i') @ DiagonalOperator(v, in_structure=a), [v, w]
    raise KeyError(name)


def run_mutable(phase, cases, ctx):
    """A and A.T exist side by side; the caller then writes into the NumPy arrays A was built from.  Whatever A does with
    those arrays (follow them or keep a snapshot), the A.T obtained earlier must remain the adjoint of A: they may not drift
    apart.  (use_first: A.T is applied once before the arrays change, so anything it memoises on first use is in place.)"""
    import collections
    import json

    import numpy as np

    from mc import probe as P

    violations = []
    counters = collections.Counter()
    nontrivial = set()
    for case in cases:
        try:
            op, arrs = P.lib('build', build_mutable, case['np_params'])
            T = P.lib('transpose', lambda: op.T)
            if case['use_first']:
                P.probe(T, cache=False)
            M0 = P.probe(op, cache=False).M
            for v in arrs:
                if v.dtype == bool or v.dtype.kind in 'iu':
                    v[...] = np.roll(v, 1)
                else:
                    v[...] = v * 1.5 + 0.25
            M1 = P.probe(op, cache=False).M
            MT = P.probe(T, cache=False).M
            counters['follows_the_arrays' if not np.allclose(M0, M1) else 'keeps_a_snapshot'] += 1
            if not P.close(MT, M1.T, 1e-5):
                violations.append({'kind': 'transpose-drifts-from-operator', 'case': case,
                                   'detail': f'after the caller modified the NumPy arrays in place, M(A) = {P.mat_summary(M1, 30)} but the A.T taken earlier has M(A.T) = {P.mat_summary(MT, 30)} '
                                             f'(before: M(A) = {P.mat_summary(M0, 30)})'})
            Tn = P.lib('transpose', lambda: op.T)
            if not P.close(P.probe(Tn, cache=False).M, M1.T, 1e-5):
                violations.append({'kind': 'not-adjoint', 'case': case, 'detail': 'a transpose taken after the modification is not the adjoint either'})
            nontrivial.add(json.dumps(case))
        except P.LibError as e:
            violations.append({'kind': 'library-raises', 'case': case, 'detail': f'{e}\n{e.tb}'})
    return {'n': len(cases), 'violations': violations, 'counters': counters, 'nontrivial': nontrivial, 'samples': cases[:1], 'classes': set()}


def run_toast_large(phase, cases, ctx):
    """Observation matrices far larger than a dense comparison allows (real ones have 147 456 rows): a sparse matrix with three
    small-integer entries per row; A.T applied to unit vectors and to a dense vector against scipy.sparse (exact arithmetic)."""
    import collections
    import json
    import os
    import shutil
    import tempfile

    import jax.numpy as jnp
    import numpy as np
    import scipy.sparse as sp

    from furax.toast.obs_matrix import ToastObservationMatrixOperator
    from mc import probe as P

    violations = []
    counters = collections.Counter()
    nontrivial = set()
    for case in cases:
        n = case['toast_n']
        rows = np.repeat(np.arange(n), 3)
        cols = np.stack([np.arange(n), (7 * np.arange(n) + 3) % n, n - 1 - np.arange(n)], axis=1).ravel()
        vals = np.stack([np.arange(n) % 5 + 1, np.arange(n) % 3 - 4, np.arange(n) % 7 + 2], axis=1).ravel().astype(np.float32)
        M = sp.csr_matrix((vals, (rows, cols)), shape=(n, n))
        M.sum_duplicates()
        M.sort_indices()
        d = tempfile.mkdtemp(prefix='verif_toast_')
        try:
            path = os.path.join(d, 'obs.npz')
            np.savez(path, format='csr', data=M.data.astype(np.float32), indices=M.indices.astype(np.int32), indptr=M.indptr.astype(np.int32), shape=np.array([n, n]))
            op = P.lib('constructor', ToastObservationMatrixOperator, path)
            T = P.lib('transpose', lambda: op.T)
            vecs = {f'e{j}': j for j in (0, 1, n // 2, n - 1, min(n - 1, 46341), (5 * n) // 7)}
            Mt = M.T.tocsr()
            for label, j in vecs.items():
                y = np.zeros(n, np.float32)
                y[j] = 1
                for name, o, ref in (('A', op, M), ('A.T', T, Mt)):
                    got = np.asarray(P.lib('mv', o.mv, jnp.asarray(y)), np.float64)
                    want = np.asarray(ref @ y.astype(np.float64)).ravel()
                    counters['sparse_products'] += 1
                    if got.shape != want.shape or not np.array_equal(got, want):
                        bad = np.nonzero(got != want)[0][:4] if got.shape == want.shape else []
                        violations.append({'kind': 'not-adjoint' if name == 'A.T' else 'wrong-forward-product', 'case': case,
                                           'detail': f'{n} x {n} observation matrix, {name} applied to {label}: differs from the sparse reference at rows {list(bad)}: {got[bad] if len(bad) else got.shape} vs {want[bad] if len(bad) else want.shape}'})
                        break
                else:
                    continue
                break
            yd = (np.arange(n) % 11 - 5).astype(np.float32)
            got = np.asarray(P.lib('mv', T.mv, jnp.asarray(yd)), np.float64)
            want = np.asarray(Mt @ yd.astype(np.float64)).ravel()
            if not np.array_equal(got, want):
                violations.append({'kind': 'not-adjoint', 'case': case, 'detail': f'{n} x {n} observation matrix: A.T applied to a dense vector differs from the sparse reference in {int((got != want).sum())} rows'})
            nontrivial.add(json.dumps(case))
        except P.LibError as e:
            violations.append({'kind': 'library-raises', 'case': case, 'detail': f'{e}\n{e.tb}'})
        finally:
            shutil.rmtree(d, ignore_errors=True)
    return {'n': len(cases), 'violations': violations, 'counters': counters, 'nontrivial': nontrivial, 'samples': cases[:1], 'classes': set()}


def contains_no_transpose(desc):
    from mc import universe as U

    return desc['a'] in U.NO_TRANSPOSE or desc.get('b') in U.NO_TRANSPOSE


def oracle(desc, op, exact, all_transforms=True):
    import numpy as np

    from mc import probe as P

    if contains_no_transpose(desc):
        return [], False
    probs = []
    pa = P.probe(op, cache=False)
    T = P.lib('transpose', lambda: op.T)
    tol = 0.0 if exact else P.tol_for(*P.op_dtypes(op))
    import numpy as _np

    if any(_np.dtype(d) == _np.float16 for d in P.op_dtypes(op)):
        tol = 2e-3   # the transposed operator has to return float16 values: equality holds up to that dtype's rounding
    if not P.same_struct(T.in_structure(), op.out_structure()) or not P.same_struct(T.out_structure(), op.in_structure()):
        probs.append(('transpose-structure', f'A: {op.in_structure()} -> {op.out_structure()} but A.T: {T.in_structure()} -> {T.out_structure()}'))
        return probs, True
    pt = P.probe(T, cache=False)
    if not P.close(pt.M, pa.M.T, tol or 1e-12):
        probs.append(('not-adjoint', f'max |M(A.T) - M(A)^T| = {P.maxdiff(pt.M, pa.M.T):.4g}; M(A)^T={P.mat_summary(pa.M.T, 48)} M(A.T)={P.mat_summary(pt.M, 48)}'))
    TT = P.lib('transpose of transpose', lambda: T.T)
    ptt = P.probe(TT, cache=False)
    if not P.close(ptt.M, pa.M, tol or 1e-12):
        probs.append(('double-transpose', f'max |M(A.T.T) - M(A)| = {P.maxdiff(ptt.M, pa.M):.4g}'))
    if not P.same_struct(TT.in_structure(), op.in_structure()) or not P.same_struct(TT.out_structure(), op.out_structure()):
        probs.append(('double-transpose-structure', f'{TT.in_structure()} -> {TT.out_structure()}'))
    # --- histories and transformations: a second request for A.T, the transpose of A.T.T, A.T under vmap, and A.T handed to a
    # jitted function as an argument must all act as M(A)^T on one non-basis vector (unsupported transformations are skipped)
    m = pa.M.shape[0]
    import json
    import zlib

    if m and pa.M.shape[1] and not probs and (desc['form'] == 'single' or all_transforms or zlib.crc32(json.dumps(desc, sort_keys=True).encode()) % 4 == 0):
        import jax
        import jax.numpy as jnp

        ftol = max(tol, 1e-5 if any(_np.dtype(d) in (_np.dtype('float32'), _np.dtype('complex64')) for d in P.op_dtypes(op)) else 1e-12)
        yv = (np.arange(m) % 5) - 1.0
        y = P.unflat(yv, T.in_structure())
        want = pa.M.T @ P.flat(y)
        for where, get in (('second request for A.T', lambda: op.T), ('A.T.T.T', lambda: TT.T)):
            Tx = P.lib(where, get)
            got = P.flat(P.lib('mv', Tx.mv, y))
            if not P.close(got, want, ftol):
                probs.append(('transpose-history', f'{where}: applied to {yv[:6]} gives {got[:6]}, M(A)^T y = {want[:6]}'))
        try:
            Y = jax.tree.map(lambda l: jnp.stack([l, 2 * l]), y)
            R = P.lib('vmap(A.T.mv)', jax.vmap(T.mv), Y)
            r0, r1 = (P.flat(jax.tree.map(lambda l, k=k: l[k], R)) for k in range(2))
            if not (P.close(r0, want, ftol) and P.close(r1, 2 * want, ftol)):
                probs.append(('transpose-vmap', f'vmap(A.T.mv) over (y, 2y): {r0[:6]} / {r1[:6]}, M(A)^T y = {want[:6]}'))
        except P.LibError:
            pass
        try:
            import equinox as eqx

            got = P.flat(P.lib('filter_jit(A.T as argument)', eqx.filter_jit(lambda t, v: t.mv(v)), T, y))
            if not P.close(got, want, ftol):
                probs.append(('transpose-jit-argument', f'A.T passed to a jitted function: {got[:6]}, M(A)^T y = {want[:6]}'))
        except P.LibError:
            pass
    nontrivial = not np.array_equal(pa.M, pa.M.T) if pa.M.shape[0] == pa.M.shape[1] else True
    return probs, nontrivial


def run(phase, cases, ctx):
    from mc import unirun

    import functools

    return unirun.run(cases, functools.partial(oracle, all_transforms=ctx.get('tier') == 'thorough'))


def finalize(results, tier, seed):
    from mc import unirun

    cov = unirun.coverage(results, 'one case = a specimen or an ordered pair of specimens; every well-typed composite form of the pair is '
                          'checked; non-trivial = the probed matrix is not symmetric (so a missing transposition is visible)')
    return {'coverage': cov, 'violations': [], 'assumptions': ['linearity (C04)', 'transposes of the iterative lazy inverse are excluded, as the property states']}
