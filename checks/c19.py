"""C19 - solver configuration is scoped, restored and captured correctly.

XSTATE part: every well-nested history of length <= N over the events
  push(S) (a real `with Config(**S):`), pop, exc(k) (exception unwinding k blocks), read, mkinv, apply(i)
is executed on the real Config / InverseOperator by a recursive interpreter using genuine `with` statements and
compared, after EVERY event, with a stack-of-dicts reference model.  The BFS over canonical model states
(frame stack, captured stacks) is driven by the coordinator (the model is pure Python); every transition is one
execution of the real code.  Conformance of the abstraction: the implementation-side fingerprint observed at the
end of each execution must be a function of the canonical model state.

SCHED part: two participants (two threads, or a thread and a `copy_context()` child spawned at every point of
the parent's history) run colliding histories under a controlled scheduler: all interleavings at event
granularity, and line-level preemption (bounds 0..B) inside furax/_base/config.py and
InverseOperator.__init__.  Oracle: each participant observes exactly what the model predicts for it alone.
"""
from __future__ import annotations

import collections
import itertools

PROPERTY = 'C19'
LEVEL = 'model_checking'
TARGET = 'checks.c19:run'

SETTINGS = ['T', 'A', 'S1', 'TB', 'OP', 'F', 'O0']
MAX_INV = 2


# ------------------------------------------------------------------------------------------- model
def model_successors(hist, reduced=False):
    depth = 0
    ninv = 0
    for ev in hist:
        if ev[0] == 'push':
            depth += 1
        elif ev[0] == 'pop':
            depth -= 1
        elif ev[0] == 'exc':
            depth -= ev[1]
        elif ev[0] == 'mkinv':
            ninv += 1
    out = [['push', s] for s in SETTINGS if not (reduced and s in ('OP', 'O0', 'TB'))] + [['read']]
    if ninv < MAX_INV:
        out.append(['mkinv'])
    out += [['apply', i] for i in range(ninv)]
    if not reduced:
        out += [['applyj', i] for i in range(ninv)]   # through ONE filter_jit function per history (shared compilation cache)
    if depth > 0:
        out.append(['pop'])
        out += [['exc', k] for k in range(1, depth + 1)]
    return out


def obj_frame(j, setting, cons, stack):
    """Frame pushed by `with cfg:` for a Config object built earlier under the frame stack `cons`.  The object froze
    default+cons+setting at construction; whether a block entered elsewhere shows that frozen state or inherits from the
    blocks around it is not something the property fixes, so the frame is 'definite' only when both readings agree."""
    definite = model_fp(list(cons)) is not None and model_fp(list(stack)) is not None and model_fp(list(cons) + [setting]) == model_fp(list(stack) + [setting])
    return ('o', j, definite, setting)


def canon(hist):
    stack, inv, cfgs = [], [], []
    used = set()
    for ev in hist:
        if ev[0] == 'push':
            stack.append(ev[1])
        elif ev[0] == 'pop':
            stack.pop()
        elif ev[0] in ('exc', 'bexc'):
            del stack[-ev[1]:]
        elif ev[0] in ('mkinv', 'mkinvc'):
            inv.append(tuple(stack))
        elif ev[0] == 'applyj':
            used.add(model_fp(inv[ev[1]]))
        elif ev[0] == 'mkcfg':
            cfgs.append([ev[1], tuple(stack), True])
        elif ev[0] == 'enter':
            stack.append(obj_frame(ev[1], cfgs[ev[1]][0], cfgs[ev[1]][1], stack))
        elif ev[0] == 'drop':
            cfgs[ev[1]][2] = False
    # the shared jitted function remembers which configurations it has been traced with: part of the state
    if not cfgs:
        return (tuple(stack), tuple(inv), tuple(sorted(map(repr, used))))
    return (tuple(stack), tuple(inv), tuple(sorted(map(repr, used))), tuple(map(tuple, cfgs)))


FIELDS = {'T': {'throw': True}, 'A': {'cb': 'A'}, 'S1': {'solver': 'CG1'}, 'TB': {'throw': True, 'cb': 'B'}, 'OP': {'opts': 'P'}, 'F': {'throw': False}, 'O0': {'opts': 'none'}}


def model_fp(stack):
    """None = not determined by the property (inside a block of a Config object entered away from where it was built)."""
    d = {'solver': 'CG0', 'throw': False, 'cb': 'default', 'opts': 'none'}
    for s in stack:
        if isinstance(s, tuple):
            if not s[2]:
                return None
            s = s[3]
        d.update(FIELDS[s])
    return (d['solver'], d['throw'], d['cb'], d['opts'])


OBJ_PUSH = ['T', 'S1']
OBJ_MK = ['A', 'S1']
MAX_CFG = 2


def obj_successors(hist):
    """Alphabet of the phase on Config OBJECTS: build now / enter later / release, and blocks left through exceptions that
    do not derive from Exception.  An object is not entered again while one of its own blocks is open."""
    stack, inv, used, *rest = canon(hist)
    cfgs = rest[0] if rest else ()
    depth = len(stack)
    definite = model_fp(list(stack)) is not None
    out = [['push', s] for s in OBJ_PUSH] + [['read']]
    if len(cfgs) < MAX_CFG and definite:
        out += [['mkcfg', s] for s in OBJ_MK]
    open_objs = {f[1] for f in stack if isinstance(f, tuple)}
    out += [['enter', j] for j, c in enumerate(cfgs) if c[2] and j not in open_objs]
    out += [['drop', j] for j, c in enumerate(cfgs) if c[2]]
    if len(inv) < 1:
        out.append(['mkinv'])
    out += [['readinv', i] for i in range(len(inv))]
    if depth > 0:
        out.append(['pop'])
        out += [['exc', k] for k in range(1, depth + 1)]
        out += [['bexc', k] for k in range(1, depth + 1)]
    return out


def bfs_cases(n, reduced=False, succ=None):
    """All transitions (history + one event) out of one representative per canonical state, depth <= n."""
    seen = {canon(())}
    frontier = collections.deque([[]])
    cases = []
    while frontier:
        h = frontier.popleft()
        if len(h) >= n:
            continue
        for ev in (succ(h) if succ else model_successors(h, reduced)):
            h2 = h + [ev]
            cases.append(h2)
            k = canon(h2)
            if k not in seen:
                seen.add(k)
                frontier.append(h2)
    return cases, len(seen)


# ---- SCHED harness bodies (pure data: list of events; 'spawn' hands a copied context to the child)
SCHED_HISTORIES = [
    [['push', 'T'], ['read'], ['pop']],
    [['push', 'A'], ['read'], ['exc', 1], ['read']],
    [['push', 'S1'], ['mkinv'], ['pop'], ['readinv', 0]],
    [['push', 'TB'], ['push', 'A'], ['exc', 2], ['read']],
    [['read'], ['push', 'S1'], ['read'], ['pop']],
    [['mkinv'], ['push', 'TB'], ['mkinv'], ['exc', 1]],
    [['read']],
    [['push', 'T'], ['push', 'S1'], ['pop'], ['read'], ['pop']],
]


SHORT_HISTORIES = [
    [['push', 'T'], ['pop']],
    [['push', 'A'], ['exc', 1]],
    [['read']],
    [['mkinv']],
    [['push', 'OP'], ['read'], ['pop']],
]


def plan(tier, seed):
    n = 4 if tier == 'quick' else 5          # full alphabet (5 settings, eager and jitted apply)
    cases, nstates = bfs_cases(n)
    seen = {repr(c) for c in cases}
    deep, _ = bfs_cases(n + 1, reduced=True)  # one level deeper without solver_options / jitted apply
    cases += [c for c in deep if repr(c) not in seen]
    phases = [
        {'name': 'histories', 'target': TARGET, 'cases': cases, 'x64': False, 'ctx': {'model_states': nstates, 'depth': n}},
    ]
    pair_hist = []
    opts = [None] + SETTINGS
    for s1 in opts:
        for s2 in opts:
            for nested in (False, True):
                h = ([['push', s1]] if s1 else []) + [['mkinv']]
                if s1 and not nested:
                    h.append(['pop'])
                if not s2 and (nested and s1):
                    continue
                h += ([['push', s2]] if s2 else []) + [['mkinv']] + ([['pop']] if s2 else [])
                for order in ([0, 1], [1, 0], [0, 1, 0]):
                    for kind in ('applyj', 'apply'):
                        pair_hist.append(h + [[kind if k % 2 == 0 or kind == 'applyj' else 'applyj', i] for k, i in enumerate(order)])
    for s1 in opts:
        for s2 in opts:
            h = ([['push', s1]] if s1 else []) + [['mkinvc']] + ([['pop']] if s1 else [])
            h += ([['push', s2]] if s2 else []) + [['redinv', 0], ['readinv', 0]] + ([['pop']] if s2 else []) + [['readinv', 0], ['applyc', 0]]
            pair_hist.append(h)
    for s1 in SETTINGS:   # many independently inverted blocks created inside a block (and inside two nested ones)
        for nblk in (1, 2, 7, 8, 9, 16, 33):
            for as_dict in (False, True):
                pair_hist.append([['push', s1], ['mkinvblk', nblk, as_dict], ['pop']])
        pair_hist.append([['push', 'A'], ['push', s1], ['mkinvblk', 12, False], ['pop'], ['mkinvblk', 8, True], ['pop']])
    seen_h = {repr(c) for c in cases}
    pair_hist = [h for h in pair_hist if repr(h) not in seen_h]
    phases.append({'name': 'histories_pairs', 'target': TARGET, 'cases': pair_hist, 'x64': False, 'chunk': 6})
    obj_cases, obj_states = bfs_cases(5 if tier == 'quick' else 6, succ=obj_successors)
    obj_cases = [h for h in obj_cases if repr(h) not in seen_h]
    phases.append({'name': 'histories_objs', 'target': TARGET, 'cases': obj_cases, 'x64': False, 'chunk': 40, 'ctx': {'model_states': obj_states}})
    # event-level interleavings: all ordered pairs of histories x {two threads, parent + copy_context child}
    pairs = []
    for i, j in itertools.product(range(len(SCHED_HISTORIES)), repeat=2):
        pairs.append({'mode': 'threads', 'a': i, 'b': j})
    for i, j in itertools.product(range(len(SCHED_HISTORIES)), repeat=2):
        for sp in range(len(SCHED_HISTORIES[i]) + 1):
            pairs.append({'mode': 'child', 'a': i, 'b': j, 'spawn_at': sp})
    if tier == 'thorough':   # three concurrent threads on very short histories, all interleavings
        import itertools as _it

        pairs += [{'mode': 'threads3', 'hs': list(t)} for t in _it.combinations_with_replacement(range(len(SHORT_HISTORIES)), 3) if sum(len(SHORT_HISTORIES[i]) for i in t) <= 4]
    phases.append({'name': 'sched_events', 'target': TARGET, 'cases': pairs, 'x64': False, 'chunk': 8})
    # line-level preemption
    bound = 1 if tier == 'quick' else 2
    hs = [0, 1, 2, 3, 5] if tier == 'quick' else list(range(len(SCHED_HISTORIES)))
    assert all(canon(h)[0] == () for h in SCHED_HISTORIES)
    fine = [{'mode': 'threads', 'a': i, 'b': j, 'bound': bound} for i, j in itertools.product(hs, repeat=2) if i <= j]
    if tier == 'thorough':
        fine += [{'mode': 'child', 'a': i, 'b': j, 'spawn_at': sp, 'bound': 1}
                 for i, j in itertools.product([0, 2, 3, 5], repeat=2) for sp in (1, 2)]
    phases.append({'name': 'sched_lines', 'target': TARGET, 'cases': fine, 'x64': False, 'chunk': 1})
    phases.append({'name': 'apply_threads', 'target': TARGET, 'cases': [{'k': k} for k in range(4)], 'x64': False, 'chunk': 1})
    return phases


# ------------------------------------------------------------------------------------------ worker
_W = {}


def _setup():
    if _W:
        return _W
    import jax
    import jax.numpy as jnp
    import lineax as lx

    from furax import Config
    from furax._base.dense import DenseBlockDiagonalOperator

    calls = []

    def cbA(s):
        calls.append(('A', int(s.stats['num_steps'])))

    def cbB(s):
        calls.append(('B', int(s.stats['num_steps'])))

    CG1 = lx.CG(rtol=1e-6, atol=1e-6, max_steps=1)
    DEFAULT = Config.instance()
    SET = {
        'T': dict(solver_throw=True),
        'A': dict(solver_callback=cbA),
        'S1': dict(solver=CG1),
        'TB': dict(solver_throw=True, solver_callback=cbB),
    }
    f32 = jnp.float32
    S = DenseBlockDiagonalOperator(jnp.array([[2.0, 1.0], [1.0, 3.0]], f32), jax.ShapeDtypeStruct((2,), f32), 'ij,j->i')
    SINV = DenseBlockDiagonalOperator(jnp.array([[3.0, -1.0], [-1.0, 2.0]], f32) / 5, jax.ShapeDtypeStruct((2,), f32), 'ij,j->i')
    SET['OP'] = dict(solver_options={'preconditioner': SINV})
    SET['F'] = dict(solver_throw=False)      # falsy overrides: must replace a truthy outer value
    SET['O0'] = dict(solver_options={})
    import equinox

    _W.update(make_fjit=lambda: equinox.filter_jit(lambda inv, x: inv.mv(x)))

    def fp(cfg):
        if not isinstance(cfg, type(DEFAULT)):
            return ('not-a-configuration', type(cfg).__name__)
        solver = 'CG1' if cfg.solver is CG1 else 'CG0' if cfg.solver is DEFAULT.solver else 'other'
        cb = 'A' if cfg.solver_callback is cbA else 'B' if cfg.solver_callback is cbB else 'default' if cfg.solver_callback is DEFAULT.solver_callback else 'other'
        opts = 'none' if cfg.solver_options == {} else 'P' if cfg.solver_options.get('preconditioner') is SINV and len(cfg.solver_options) == 1 else 'other'
        return (solver, bool(cfg.solver_throw), cb, opts)

    from furax.operators import symmetric

    @symmetric
    class SymDense(DenseBlockDiagonalOperator):
        pass

    S2 = SymDense(jnp.array([[2.0, 1.0], [1.0, 3.0]], f32), jax.ShapeDtypeStruct((2,), f32), 'ij,j->i')
    from furax._base.core import AdditionOperator

    _W.update(S2=S2, SC=AdditionOperator([S, S]))
    _W.update(jax=jax, jnp=jnp, Config=Config, calls=calls, cbA=cbA, cbB=cbB, CG1=CG1, DEFAULT=DEFAULT, SET=SET, S=S, fp=fp)
    return _W


class Unwind(Exception):
    def __init__(self, k):
        self.k = k


class UnwindB(BaseException):
    """Leaves blocks like KeyboardInterrupt / SystemExit / GeneratorExit do: not an Exception subclass."""

    def __init__(self, k):
        self.k = k


def interpret(hist, problems, obs=None, ev=None, api=None, init_stack=(), spawn_at=None, child=None, do_apply=True, fast_inv=False):
    """Executes a history on the real Config with genuine `with` statements, comparing with the model after
    every event.  `ev()` is called between events (scheduling point of the SCHED engine)."""
    W = _setup()
    Config, fp, SET, S = W['Config'], W['fp'], W['SET'], (W['S2'] if fast_inv else W['S'])
    jnp, jax = W['jnp'], W['jax']
    from mc.probe import quiet

    pos = 0
    nevents = 0
    invs = []
    stack = list(init_stack)
    nchecks = 0
    end_state = []
    fjit = []

    cfgs = []

    def expect(what, got, want):
        nonlocal nchecks
        if want is None:   # not determined by the property (see obj_frame)
            return
        nchecks += 1
        if got != want:
            problems.append(f'{what}: observed {got}, model {want} (history {hist}, position {pos})')

    def tick():
        nonlocal nevents
        if spawn_at is not None and nevents == spawn_at and api is not None:
            api.spawn(child)
        nevents += 1
        if ev is not None:
            ev()

    def block():
        nonlocal pos
        while pos < len(hist):
            e = hist[pos]
            pos += 1
            tick()
            if e[0] in ('push', 'enter'):
                if e[0] == 'push':
                    frame = e[1]
                    cm = Config(**SET[e[1]])
                else:
                    cm, setting, cons = cfgs[e[1]]
                    frame = obj_frame(e[1], setting, cons, stack)
                stack.append(frame)
                try:
                    with cm as c:
                        expect('value bound by `as`', fp(c), model_fp(stack))
                        expect('active after enter', fp(Config.instance()), model_fp(stack))
                        del cm
                        r = block()
                    stack.pop()
                    expect('active after normal exit', fp(Config.instance()), model_fp(stack))
                    if r == 'end':
                        return 'end'
                except (Unwind, UnwindB) as u:
                    stack.pop()
                    expect('active after exit by exception' + (' (not an Exception subclass)' if isinstance(u, UnwindB) else ''), fp(Config.instance()), model_fp(stack))
                    if u.k > 1:
                        raise type(u)(u.k - 1)
            elif e[0] == 'bexc':
                raise UnwindB(e[1])
            elif e[0] == 'mkcfg':
                cfgs.append((Config(**SET[e[1]]), e[1], tuple(stack)))
                expect('active after building a Config object', fp(Config.instance()), model_fp(stack))
            elif e[0] == 'drop':
                import gc

                cfgs[e[1]] = (None,) + cfgs[e[1]][1:]
                gc.collect()
                expect('active after releasing a Config object', fp(Config.instance()), model_fp(stack))
            elif e[0] == 'pop':
                return 'pop'
            elif e[0] == 'exc':
                raise Unwind(e[1])
            elif e[0] == 'read':
                got = fp(Config.instance())
                expect('read', got, model_fp(stack))
                if obs is not None:
                    obs.append(('read', got))
            elif e[0] == 'mkinv':
                inv = S.I
                invs.append((inv, tuple(stack)))
                got = fp(inv.config)
                expect('captured at creation', got, model_fp(stack))
                if obs is not None:
                    obs.append(('mkinv', got))
            elif e[0] == 'mkinvblk':   # block-diagonal operator of e[1] solver-inverted blocks (list, or dict when e[2]): one capture per block
                from furax._base.blocks import BlockDiagonalOperator
                from furax._base.core import InverseOperator

                blocks = [S] * e[1] if not e[2] else {f'b{k}': S for k in range(e[1])}
                binv = BlockDiagonalOperator(blocks).I
                leaves = [b for b in jax.tree.leaves(binv.blocks, is_leaf=lambda x: isinstance(x, InverseOperator)) if isinstance(b, InverseOperator)]
                expect('number of lazily inverted blocks', len(leaves), e[1])
                for k, b in enumerate(leaves):
                    expect(f'configuration captured by block {k} of {e[1]}', fp(b.config), model_fp(stack))
            elif e[0] == 'mkinvc':   # inverse of a composite (a sum: its reduce() always returns a new object)
                inv = W['SC'].I
                invs.append((inv, tuple(stack)))
                expect('captured at creation (composite operand)', fp(inv.config), model_fp(stack))
            elif e[0] == 'redinv':   # reducing an expression that contains the inverse must not re-capture the configuration
                inv, st = invs[e[1]]
                from furax._base.core import CompositionOperator, InverseOperator

                r = inv.reduce()
                r2 = CompositionOperator([W['S'], inv]).reduce()
                for cand in [r] + (list(r2.operands) if isinstance(r2, CompositionOperator) else [r2]):
                    if isinstance(cand, InverseOperator):
                        expect('configuration of the inverse after reduce()', fp(cand.config), model_fp(st))
                if isinstance(r, InverseOperator):
                    invs[e[1]] = (r, st)
            elif e[0] == 'applyc':
                inv, st = invs[e[1]]
                want = model_fp(st)
                raised = False
                W['calls'].clear()
                try:
                    with quiet():
                        inv.mv(jnp.array([1.0, 0.0], jnp.float32))
                        jax.effects_barrier()
                except Exception:  # noqa: BLE001
                    raised = True
                expect('apply (composite operand) raises iff captured throw and 1-step solver', raised, want[1] and want[0] == 'CG1')
                if not raised and want[2] in ('A', 'B'):
                    expect('callback of the captured config fired (composite operand)', W['calls'][-1][0] if W['calls'] else None, want[2])
            elif e[0] == 'readinv':
                inv, st = invs[e[1]]
                got = fp(inv.config)
                expect('captured config later', got, model_fp(st))
                if obs is not None:
                    obs.append(('readinv', got))
            elif e[0] in ('apply', 'applyj') and do_apply:
                inv, st = invs[e[1]]
                want = model_fp(st)
                W['calls'].clear()
                raised = False
                y = None
                import contextlib
                import io
                import re

                buf = io.StringIO()
                try:
                    with contextlib.redirect_stdout(buf):
                        rhs = jnp.array([1.0, 0.0], jnp.float32)
                        if e[0] == 'applyj' and not fjit:
                            fjit.append(W['make_fjit']())   # one jitted function per history: its cache is part of the history's state
                        y = inv.mv(rhs) if e[0] == 'apply' else fjit[0](inv, rhs)
                        jax.effects_barrier()
                except Exception:  # noqa: BLE001
                    raised = True
                one_step = want[0] == 'CG1'
                expect('apply raises iff captured throw and 1-step solver', raised, want[1] and one_step)
                if not raised:
                    import numpy as np

                    sol = [round(float(v), 3) for v in np.asarray(y)]
                    expect('solution follows the captured solver and options', sol, [0.5, 0.0] if (one_step and want[3] != 'P') else [0.6, -0.2])
                    calls = list(W['calls'])
                    if want[2] in ('A', 'B'):
                        expect('callback of the captured config fired', calls[-1][0] if calls else None, want[2])
                        if calls:
                            expect('step count follows the captured solver and options', calls[-1][1], 1 if one_step else 2 if want[3] == 'P' else 3)
                    else:
                        expect('no foreign callback fired', calls, [])
                        m = re.search(r'in (\d+) iterations', buf.getvalue())   # the default callback prints the step count
                        expect('step count printed by the default callback follows the captured solver and options',
                               int(m.group(1)) if m else None, 1 if one_step else 2 if want[3] == 'P' else 3)
                expect('captured config unchanged by use', fp(inv.config), want)
        if not end_state:
            # the history is exhausted: this is the state it reaches (before the interpreter unwinds)
            end_state.append((fp(Config.instance()), tuple(fp(i.config) for i, _ in invs)))
        return 'end'

    try:
        block()
    except (Unwind, UnwindB):
        pass
    tick()
    return nchecks, end_state[0] if end_state else None, invs


def run_history(hist):
    import contextvars

    W = _setup()
    problems: list[str] = []
    out = {}

    def top():
        nchecks, end_state, invs = interpret(hist, problems)
        # impl-side fingerprint of the state reached (active configuration, captured configurations)
        out['impl'] = end_state
        out['nchecks'] = nchecks
        # replay the still-open frames: a history that ends inside blocks is closed by the interpreter's
        # unwinding; once everything is closed the default object itself must be active again
    ctx = contextvars.Context()
    ctx.run(top)

    def after():
        out['default_restored'] = W['Config'].instance() is W['DEFAULT']

    ctx.run(after)
    if not out['default_restored']:
        problems.append(f'after leaving every block the active configuration is not the default object (history {hist})')
    return problems, out


def _participants(case, problems_by_part):
    W = _setup()
    if case['mode'] == 'threads3':
        def mk3(hist, idx):
            def body(obs, ev, api):
                pr = []
                problems_by_part[idx] = pr
                interpret(hist, pr, obs=obs, ev=ev, api=api, do_apply=False, fast_inv=True)
                obs.append(('final', W['fp'](W['Config'].instance())))
            return body
        return [{'body': mk3(SHORT_HISTORIES[h], i)} for i, h in enumerate(case['hs'])]
    ha, hb = SCHED_HISTORIES[case['a']], SCHED_HISTORIES[case['b']]

    def mk(hist, idx, **kw):
        def body(obs, ev, api):
            pr = []
            problems_by_part[idx] = pr
            interpret(hist, pr, obs=obs, ev=ev, api=api, do_apply=False, fast_inv=True, **kw)
            obs.append(('final', W['fp'](W['Config'].instance())))
        return body

    if case['mode'] == 'threads':
        return [{'body': mk(ha, 0)}, {'body': mk(hb, 1)}]
    # parent + copy_context child spawned before parent's event number spawn_at
    sp = case['spawn_at']
    stack_at_spawn = canon([e for e in ha[:sp] if e[0] != 'readinv'])[0]
    return [
        {'body': mk(ha, 0, spawn_at=sp, child=1)},
        {'body': mk(hb, 1, init_stack=stack_at_spawn), 'start': ('child', 0)},
    ]


def run_sched(case, fine):
    from mc import sched

    W = _setup()
    holder = {}

    def make():
        holder['p'] = {}
        return _participants(case, holder['p'])

    def check(obs, errors):
        out = []
        for i, e in enumerate(errors):
            if e is not None:
                out.append(f'participant {i} raised {type(e).__name__}: {e}')
        for i, pr in holder['p'].items():
            out += [f'participant {i}: {p}' for p in pr]
        return out

    pred = None
    if fine:
        import furax._base.config as cfgmod
        import furax._base.core as coremod

        cfg_file = cfgmod.__file__
        core_file = coremod.__file__

        def pred(code):
            return code.co_filename == cfg_file or (code.co_filename == core_file and code.co_qualname.startswith(('InverseOperator.', '_AbstractLazyDualOperator.__init__')))

    per_bound = {}
    bounds = [None] if not fine else list(range(case['bound'] + 1))
    res = None
    for b in bounds:
        res = sched.explore(make, b, trace_pred=pred, check=check)
        per_bound[str(b)] = res['executions']
        if res['problems'] or not res['deterministic']:
            break
    return res, per_bound


def run_apply_threads(k):
    """Free-standing: two real threads, each inside its own Config block, create and apply inverses at event
    granularity under every interleaving; the callback that fires identifies the captured configuration."""
    from mc import sched

    W = _setup()
    Config, S, jnp, jax = W['Config'], W['S'], W['jnp'], W['jax']
    from mc.probe import quiet

    variants = [('A', 'TB'), ('TB', 'A'), ('A', 'A'), ('S1', 'A')]
    sa, sb = variants[k]
    lock_calls = []

    def mk(setting, tag):
        def body(obs, ev, api):
            ev()
            with Config(**W['SET'][setting]):
                ev()
                inv = S.I
                ev()
            ev()
            W['calls'].clear()
            raised = False
            try:
                with quiet():
                    inv.mv(jnp.array([1.0, 0.0], jnp.float32))
                    jax.effects_barrier()
            except Exception:  # noqa: BLE001
                raised = True
            obs.append((tag, W['fp'](inv.config), raised, tuple(W['calls'])))
            ev()
            obs.append(('final', W['fp'](Config.instance())))
        return body

    def make():
        return [{'body': mk(sa, 'a')}, {'body': mk(sb, 'b')}]

    def check(obs, errors):
        out = []
        for i, (setting, o) in enumerate(zip((sa, sb), obs)):
            want = model_fp([setting])
            if errors[i] is not None:
                out.append(f'participant {i} raised {errors[i]!r}')
                continue
            tag, got, raised, calls = o[0]
            if got != want:
                out.append(f'thread {i} captured {got}, model {want}')
            if raised != (want[1] and want[0] == 'CG1'):
                out.append(f'thread {i} raised={raised}')
            if not raised and want[2] in ('A', 'B') and (not calls or calls[-1][0] != want[2]):
                out.append(f'thread {i}: callback {calls} but captured config has {want[2]}')
            if o[1] != ('final', model_fp([])):
                out.append(f'thread {i}: after its block the active config is {o[1]}')
        return out

    return sched.explore(make, None, check=check)


def run(phase, cases, ctx):
    res = {'violations': [], 'n': 0, 'checks': 0, 'impl_map': {}, 'executions': 0, 'outcomes_max': 0,
           'per_bound': collections.Counter(), 'samples': [], 'nondeterministic': 0, 'sched_points_max': 0}
    for case in cases:
        res['n'] += 1
        if phase in ('histories', 'histories_pairs', 'histories_objs'):
            problems, out = run_history(case)
            res['checks'] += out.get('nchecks', 0)
            key = repr(canon(case))
            res['impl_map'].setdefault(key, set()).add(repr(out.get('impl')))
            for p in problems:
                res['violations'].append({'kind': 'history', 'case': case, 'detail': p})
        elif phase in ('sched_events', 'sched_lines'):
            r, per_bound = run_sched(case, fine=(phase == 'sched_lines'))
            res['executions'] += sum(per_bound.values())
            for b, n in per_bound.items():
                res['per_bound'][b] += n
            res['outcomes_max'] = max(res['outcomes_max'], len(r['outcomes']))
            res['sched_points_max'] = max(res['sched_points_max'], r['max_points'])
            if not r['deterministic']:
                res['nondeterministic'] += 1
            if len(r['outcomes']) != 1:
                res['violations'].append({'kind': 'schedule-dependent-outcome', 'case': case,
                                          'detail': f'{len(r["outcomes"])} distinct observation vectors: {sorted(r["outcomes"])[:2]}'})
            for trace, p in r['problems'][:3]:
                res['violations'].append({'kind': 'schedule', 'case': case, 'detail': f'schedule {trace}: {p}'})
        elif phase == 'apply_threads':
            r = run_apply_threads(case['k'])
            res['executions'] += r['executions']
            res['per_bound']['all'] += r['executions']
            res['outcomes_max'] = max(res['outcomes_max'], len(r['outcomes']))
            if not r['deterministic']:
                res['nondeterministic'] += 1
            for trace, p in r['problems'][:3]:
                res['violations'].append({'kind': 'apply-threads', 'case': case, 'detail': f'schedule {trace}: {p}'})
        if len(res['samples']) < 2:
            res['samples'].append(case)
    # max is not additive: keep as list for the merger
    res['outcomes_max'] = [res['outcomes_max']]
    res['sched_points_max'] = [res['sched_points_max']]
    return res


def finalize(results, tier, seed):
    h = results['histories']
    for hp in (results['histories_pairs'], results['histories_objs']):
        for k, v in hp['impl_map'].items():
            h['impl_map'].setdefault(k, set()).update(v)
        h['n'] += hp['n']
        h['checks'] += hp['checks']
    violations = []
    impl_map = h['impl_map']
    # abstraction conformance: equal canonical model state => equal implementation fingerprint
    for k, v in impl_map.items():
        if len(v) != 1:
            violations.append({'kind': 'abstraction', 'case': k, 'phase': 'histories', 'target': TARGET,
                               'detail': f'model state {k} corresponds to several implementation fingerprints {sorted(v)}'})
    states = len(impl_map)
    distinct_impl = len({next(iter(v)) for v in impl_map.values()})
    nd = sum(results[p].get('nondeterministic', 0) for p in ('sched_events', 'sched_lines', 'apply_threads'))
    if nd:
        raise RuntimeError('SCHED determinism self-check failed: replaying the same schedule gave different observations')
    per_bound = collections.Counter()
    for p in ('sched_events', 'sched_lines', 'apply_threads'):
        per_bound.update({f'{p}:{b}': n for b, n in results[p]['per_bound'].items()})
    cov = {
        'states': states,
        'transitions': h['n'],
        'traces_validated_against_impl': h['n'],
        'model_comparisons': h['checks'],
        'distinct_impl_fingerprints': distinct_impl,
        'history_depth': '4 (full alphabet) / 5 (without solver_options and jitted apply)' if tier == 'quick' else '5 (full alphabet) / 6 (reduced)',
        'schedules': sum(results[p]['executions'] for p in ('sched_events', 'sched_lines', 'apply_threads')),
        'schedules_per_bound': dict(per_bound),
        'sched_harnesses': sum(results[p]['n'] for p in ('sched_events', 'sched_lines', 'apply_threads')),
        'max_scheduling_points_per_execution': max(results['sched_lines']['sched_points_max']),
        'distinct_outcomes_per_harness_max': max(max(results[p]['outcomes_max']) for p in ('sched_events', 'sched_lines', 'apply_threads')),
        'evaluations': h['n'] + sum(results[p]['executions'] for p in ('sched_events', 'sched_lines', 'apply_threads')),
        'distinct_nontrivial': states,
        'rule': 'XSTATE: BFS over canonical model states (frame stack, captured stacks); every transition = one execution '
                'of the real Config/InverseOperator compared with the stack-of-dicts model after every event; '
                'states = canonical states reached, non-trivial = all (each differs in stack or captures). SCHED: DFS over '
                'choice lists with preemption bound; one outcome per harness is the expected result (isolation).',
        'samples': (h['samples'][:3] + results['sched_lines']['samples'][:2]),
        'exhaustive': True,
    }
    return {'coverage': cov, 'violations': violations,
            'assumptions': ['C-level atomicity of ContextVar.set/reset (GIL)', 'scheduling points = trace events of config.py and InverseOperator methods',
                            'a new threading.Thread starts from an empty context (CPython >= 3.7 semantics)']}
