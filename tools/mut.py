#!/venv/bin/python
"""Detection demo helper: copy /repo to a scratch dir, apply a textual replacement or a patch, run checks against it.
usage: tools/mut.py NAME --file F --old OLD --new NEW [--patch P] [--tests] -- C01 C07 ...
"""
import argparse, os, shutil, subprocess, sys
ap = argparse.ArgumentParser()
ap.add_argument('name'); ap.add_argument('--file'); ap.add_argument('--old'); ap.add_argument('--new'); ap.add_argument('--patch')
ap.add_argument('--tests', action='store_true'); ap.add_argument('--tier', default='quick'); ap.add_argument('--keep', action='store_true')
ap.add_argument('checks', nargs='*')
a = ap.parse_args()
d = f'/tmp/wt/{a.name}'
shutil.rmtree(d, ignore_errors=True); os.makedirs('/tmp/wt', exist_ok=True)
subprocess.run(['git', '-C', '/repo', 'worktree', 'prune'], check=False)
shutil.copytree('/repo', d, ignore=shutil.ignore_patterns('.git', '__pycache__'))
if a.patch:
    subprocess.run(['patch', '-p1', '-d', d, '-i', os.path.abspath(a.patch)], check=True)
else:
    p = os.path.join(d, a.file); s = open(p).read()
    old = a.old.encode().decode('unicode_escape'); new = a.new.encode().decode('unicode_escape')
    if s.count(old) != 1: sys.exit(f'pattern occurs {s.count(old)} times')
    open(p, 'w').write(s.replace(old, new))
rc = 0
if a.tests:
    r = subprocess.run(['/verif/tools/baseline.py', d], capture_output=True, text=True); print(r.stdout[-600:])
for c in a.checks:
    r = subprocess.run(['/verif/check', c, '--tier', a.tier, '--no-evidence'], env=dict(os.environ, VERIF_REPO=d), capture_output=True, text=True)
    lines = [l for l in r.stdout.splitlines() if l.startswith(('VIOLATION', '[' + c + ']', 'KNOWN'))]
    nv = sum(l.startswith('VIOLATION') for l in lines)
    print(f'{a.name}: {c} exit={r.returncode} VIOLATION-lines={nv}')
    for l in r.stdout.splitlines():
        if l.strip().startswith(('kind=', 'detail=')): print('   ', l.strip()[:260]); break
    if r.returncode not in (0, 1): print(r.stderr[-1500:])
if not a.keep: shutil.rmtree(d, ignore_errors=True)
