#!/venv/bin/python
"""Runs the repository's baseline test command on a tree (default /repo) and compares the passing set with
BASELINE.json's stable_pass list.  Usage: tools/baseline.py [repo_dir] [-k expr]"""
import json, os, subprocess, sys, tempfile, xml.etree.ElementTree as ET
repo = sys.argv[1] if len(sys.argv) > 1 and not sys.argv[1].startswith('-') else '/repo'
extra = [a for a in sys.argv[1:] if a != repo]
base = json.load(open('/root/.vp/BASELINE.json'))
want = set(base['stable_pass'])
with tempfile.TemporaryDirectory() as d:
    xml = os.path.join(d, 'j.xml')
    env = dict(os.environ, PYTHONPATH=os.path.join(repo, 'src'), PYTHONDONTWRITEBYTECODE='1')
    r = subprocess.run(['/venv/bin/python', '-m', 'pytest', '-ra', '-q', '-p', 'no:cacheprovider', '--timeout=900',
                        '--continue-on-collection-errors', f'--junitxml={xml}', '-n', '8'] + extra if False else
                       ['/venv/bin/python', '-m', 'pytest', '-ra', '-q', '-p', 'no:cacheprovider', '--timeout=900',
                        '--continue-on-collection-errors', f'--junitxml={xml}'] + extra,
                       cwd=repo, env=env, capture_output=True, text=True)
    passed = set()
    ran = set()
    for tc in ET.parse(xml).getroot().iter('testcase'):
        ran.add(f"{tc.get('classname')}::{tc.get('name')}")
        if not any(ch.tag in ('failure', 'error', 'skipped') for ch in tc):
            passed.add(f"{tc.get('classname')}::{tc.get('name')}")
if extra:
    want &= ran
missing = sorted(want - passed)
print(f'baseline stable_pass={len(want)} passed_now={len(passed)} missing={len(missing)} extra_passing={len(passed - want)}')
for m in missing[:30]:
    print('  MISSING', m)
sys.exit(1 if missing else 0)
