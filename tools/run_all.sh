#!/bin/bash
# usage: tools/run_all.sh [tier] [checks...] ; runs each check, prints one summary line per check
cd "$(dirname "$0")/.." || exit 2
TIER=${1:-quick}; shift
CHECKS=${@:-C01 C02 C03 C04 C05 C06 C07 C08 C09 C10 C11 C12 C13 C14 C15 C16 C17 C18 C19 C20}
for c in $CHECKS; do
  s=$(date +%s)
  out=$(timeout 7200 ./check $c --tier $TIER 2>&1); rc=$?
  e=$(date +%s)
  echo "$c rc=$rc secs=$((e-s)) seed=${VERIF_SEED:-0} $(echo "$out" | grep -c '^VIOLATION') violation-lines; $(echo "$out" | grep "^\[$c\] tier" | cut -c1-220)"
  if [ $rc -ne 0 ]; then echo "$out" | grep -E "VIOLATION|kind=|HARNESS" | head -6 | cut -c1-300; fi
done
