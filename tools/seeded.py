#!/venv/bin/python
"""Confirms a seeded change and records it under /verif/seeded/<name>/.
usage: tools/seeded.py SRC_DIR NAME PROPERTY [--checks C01,C07] [--tier quick] [--skip-baseline]
SRC_DIR holds patch.diff, demo.py, meta.json (written by an independent sub-agent in its own scratch worktree).
Steps: scratch copy of /repo -> apply patch -> baseline test-suite must still pass -> demo must fail with the change and
pass on the unchanged /repo -> run the named checks against the scratch copy (VERIF_REPO) -> write meta.json."""
import argparse, json, os, shutil, subprocess, sys, time
ap = argparse.ArgumentParser()
ap.add_argument('src'); ap.add_argument('name'); ap.add_argument('prop')
ap.add_argument('--checks', default=''); ap.add_argument('--tier', default='quick'); ap.add_argument('--skip-baseline', action='store_true')
a = ap.parse_args()
checks = [c for c in (a.checks.split(',') if a.checks else [a.prop]) if c]
d = f'/tmp/wt/seed_{a.name}'
shutil.rmtree(d, ignore_errors=True); os.makedirs('/tmp/wt', exist_ok=True)
shutil.copytree('/repo', d, ignore=shutil.ignore_patterns('.git', '__pycache__', 'OUT'))
r = subprocess.run(['patch', '-p1', '-d', d, '-i', os.path.abspath(os.path.join(a.src, 'patch.diff'))], capture_output=True, text=True)
if r.returncode != 0:
    print('PATCH FAILED', r.stdout, r.stderr); shutil.rmtree(d, ignore_errors=True); sys.exit(2)
rec = {'property': a.prop, 'name': a.name}
try:
    rec.update({k: v for k, v in json.load(open(os.path.join(a.src, 'meta.json'))).items() if k in ('summary', 'needs_to_manifest')})
except Exception as e:
    rec['agent_meta_error'] = str(e)
env = dict(os.environ, JAX_PLATFORMS='cpu', PYTHONDONTWRITEBYTECODE='1')
def demo(repo):
    r = subprocess.run(['/venv/bin/python', os.path.abspath(os.path.join(a.src, 'demo.py'))], env=dict(env, PYTHONPATH=os.path.join(repo, 'src')), capture_output=True, text=True, timeout=1200, cwd='/tmp')
    return r.returncode, (r.stdout + r.stderr)[-400:]
rc_with, out_with = demo(d)
rc_without, out_without = demo('/repo')
rec['demo_fails_with_change'] = rc_with != 0
rec['demo_passes_without'] = rc_without == 0
print(f'demo with change: rc={rc_with}; without: rc={rc_without}')
if rc_without != 0: print(out_without)
if not a.skip_baseline:
    r = subprocess.run(['/verif/tools/baseline.py', d], capture_output=True, text=True)
    line = [l for l in r.stdout.splitlines() if l.startswith('baseline')]
    rec['baseline'] = line[-1] if line else r.stdout[-300:]
    rec['baseline_still_passes'] = r.returncode == 0
    print(rec['baseline'])
det = {}
for c in checks:
    t0 = time.time()
    r = subprocess.run(['/verif/check', c, '--tier', a.tier, '--no-evidence'], env=dict(os.environ, VERIF_REPO=d), capture_output=True, text=True)
    nv = sum(l.startswith('VIOLATION') for l in r.stdout.splitlines())
    first = next((l.strip()[:300] for l in r.stdout.splitlines() if l.strip().startswith('kind=')), '')
    det[c] = {'exit': r.returncode, 'violation_lines': nv, 'first': first, 'secs': round(time.time() - t0)}
    print(f'{a.name}: {c} exit={r.returncode} VIOLATION-lines={nv} {first[:200]}')
    if r.returncode not in (0, 1): print(r.stderr[-800:])
rec['checks_run'] = det
rec['detected_by'] = [c for c, v in det.items() if v['exit'] == 1]
rec['what_was_run'] = f'patch applied to a scratch copy of /repo at {subprocess.run(["git","-C","/repo","rev-parse","--short","HEAD"],capture_output=True,text=True).stdout.strip()}; tools/baseline.py; demo.py with/without; ./check <id> --tier {a.tier} with VERIF_REPO=<copy>'
out = f'/verif/seeded/{a.name}'
os.makedirs(out, exist_ok=True)
old = os.path.join(out, 'meta.json')
if os.path.exists(old):
    prev = json.load(open(old))
    hist = prev.get('earlier_runs', [])
    hist.append({'verif_commit': prev.get('verif_commit'), 'checks_run': prev.get('checks_run'), 'detected_by': prev.get('detected_by')})
    rec['earlier_runs'] = hist
    for k in ('baseline', 'baseline_still_passes'):
        if k not in rec and k in prev:
            rec[k] = prev[k]
rec['verif_commit'] = subprocess.run(['git', '-C', '/verif', 'rev-parse', '--short', 'HEAD'], capture_output=True, text=True).stdout.strip()
shutil.copy(os.path.join(a.src, 'patch.diff'), out); shutil.copy(os.path.join(a.src, 'demo.py'), out)
json.dump(rec, open(os.path.join(out, 'meta.json'), 'w'), indent=1)
shutil.rmtree(d, ignore_errors=True)
print('recorded', out, 'detected_by', rec['detected_by'])
