#!/usr/bin/env python3
"""Regenerates the table of seeded changes in DESIGN.md (between the table header and '### 5.2') from seeded/*/meta.json."""
import glob, json, os, re
here = os.path.dirname(os.path.dirname(os.path.abspath(__file__)))
rows = []
tot = det = 0
def key(p):
    n = os.path.basename(os.path.dirname(p)); m = re.match(r'C(\d+)_m(\d+)', n); return (int(m.group(1)), int(m.group(2)))
for p in sorted(glob.glob(os.path.join(here, 'seeded', '*', 'meta.json')), key=key):
    m = json.load(open(p)); name = os.path.basename(os.path.dirname(p))
    clean = lambda s: re.sub(r'\s+', ' ', str(s or '')).replace('|', '/')[:170]
    caught = sorted(m.get('detected_by') or [])
    tot += 1; det += bool(caught)
    er = m.get('earlier_runs') or []
    if not er:
        first = 'same'
    else:
        f0 = sorted(er[0].get('detected_by') or [])
        first = '**missed**' if not f0 else ('same' if f0 == caught else ', '.join(f0))
    rows.append(f"| `{name}` | {clean(m.get('summary'))} | {clean(m.get('needs_to_manifest'))} | {', '.join(caught) if caught else '**not reported**'} | {first} |")
path = os.path.join(here, 'DESIGN.md'); s = open(path).read()
head = '| seeded change | what it is (sub-agent\'s words, abridged) | needs to manifest (abridged) | caught by | first run |\n|---|---|---|---|---|\n'
i = s.index(head); j = s.index('### 5.2')
s = s[:i] + head + '\n'.join(rows) + '\n\n' + s[j:]
open(path, 'w').write(s)
print(f'{tot} seeded changes, {det} reported by at least one check')
missed = [r.split('|')[1].strip() for r in rows if r.rstrip().endswith('**missed** |')]
print('missed at first run:', missed)
print('not reported:', [r.split('|')[1].strip() for r in rows if '**not reported**' in r])
