"""Canaries that need JAX / furax: the XSTATE engine must report an unsound toy rule and a cyclic toy rule, and the BEX
pool must refuse to call a run exhaustive when a shard loses a case.  The toy rules are registered in THIS process only
(setup_cmd / canary runs are separate processes from the checks)."""
from __future__ import annotations

import os
import sys


def _furax():
    src = os.path.join(os.environ.get('VERIF_REPO', '/repo'), 'src')
    if src not in sys.path[:1]:
        sys.path.insert(0, src)
    os.environ.setdefault('JAX_PLATFORMS', 'cpu')
    import warnings

    warnings.filterwarnings('ignore')


def canary_xstate() -> None:
    _furax()
    import jax
    import jax.numpy as jnp

    from furax._base.core import AbstractLinearOperator, square
    from furax._base.rules import AbstractBinaryRule
    from mc import xstate

    a = jax.ShapeDtypeStruct((2,), jnp.float32)

    @square
    class Scale(AbstractLinearOperator):
        k: float
        tag: str = 'u'

        def mv(self, x):
            return self.k * x

        def in_structure(self):
            return a

    class ToyU(Scale):
        pass

    class ToyV(Scale):
        pass

    class ToyX(Scale):
        pass

    class ToyY(Scale):
        pass

    class UnsoundRule(AbstractBinaryRule):  # drops the right operand: changes the map
        left_operator_class = ToyU
        right_operator_class = ToyV

        def apply(self, left, right):
            return [left]

    class SwapRule(AbstractBinaryRule):  # sound (the toys commute) but cyclic: X Y -> Y X -> X Y ...
        operator_class = (ToyX, ToyY)

        def check(self, left, right):
            super().check(left, right)
            from furax._base.rules import NoReduction

            if not ({type(left), type(right)} == {ToyX, ToyY}):
                raise NoReduction

        def apply(self, left, right):
            return [right, left]

    atoms = {'U': ToyU(2.0), 'V': ToyV(3.0), 'X': ToyX(5.0), 'Y': ToyY(7.0)}
    env = xstate.Env(atoms, True)
    ex = xstate.Explorer(env)
    viol = []
    ex.explore([atoms['U'], atoms['V']], {'chain': ['U', 'V']}, viol)
    assert any(v['kind'] == 'unsound-step' and v.get('rule') == 'UnsoundRule' for v in viol), 'XSTATE canary: unsound toy rule not reported'
    viol2 = []
    ex.explore([atoms['X'], atoms['Y']], {'chain': ['X', 'Y']}, viol2)
    from checks.c01 import find_cycle

    assert not any(v['kind'] == 'unsound-step' for v in viol2), 'XSTATE canary: the sound swap rule was reported unsound'
    assert find_cycle(ex.edges) > 0, 'XSTATE canary: cyclic toy rule not detected'


def _bex_worker(phase, cases, ctx):
    out = {'n': len(cases), 'violations': [{'kind': 'canary', 'case': c, 'detail': 'x'} for c in cases if c == 3]}
    if phase == 'lossy' and 5 in cases:
        out['n'] -= 1
    return out


def canary_bex() -> None:
    from mc import pool

    pools = pool.Pools(2)
    try:
        res = pool.run_phase(pools, {'name': 'ok', 'target': 'mc.canary_jax:_bex_worker', 'cases': list(range(8)), 'x64': False, 'chunk': 2}, {}, 0, log=lambda *a: None)
        assert len(res['violations']) == 1, 'BEX canary: violation lost'
        try:
            pool.run_phase(pools, {'name': 'lossy', 'target': 'mc.canary_jax:_bex_worker', 'cases': list(range(8)), 'x64': False, 'chunk': 2}, {}, 0, log=lambda *a: None)
            raise AssertionError('BEX canary: a lost case was not noticed')
        except pool.HarnessError:
            pass
    finally:
        pools.close()
