"""Typed operator alphabets ("domains") for the rewrite-graph exploration (C01, C07, C15).

The TYPES tables are pure data so that the coordinator can enumerate the well-typed chains without JAX;
`build(domain)` creates the real operators in a worker and verifies that the declared typing is the
real one (a mismatch is a harness error, never a violation).

Every array parameter carries an explicit dtype (defaults change with the 64-bit switch).
"""
from __future__ import annotations

import itertools

# name -> (in space label, out space label)
TYPES: dict[str, dict[str, tuple[str, str]]] = {
    'POL': {
        'R1': ('S', 'S'), 'R2': ('S', 'S'), 'R1t': ('S', 'S'), 'R2t': ('S', 'S'), 'R1x': ('S', 'S'), 'Rnp': ('S', 'S'),
        'H': ('S', 'S'), 'Pol': ('S', 'D'), 'Is': ('S', 'S'), 'k2': ('S', 'S'), 'km': ('S', 'S'),
        'Id': ('D', 'D'), 'k4': ('D', 'D'),
    },
    'IDX': {
        'P': ('a3', 'v4'), 'Pt': ('v4', 'a3'), 'Pu': ('a3', 'a2'), 'Put': ('a2', 'a3'),
        'Ps': ('a3', 'a2'), 'Pst': ('a2', 'a3'), 'Pm': ('a3', 'a2'), 'Pmt': ('a2', 'a3'),
        'Pk': ('a3', 'a2'), 'Pkt': ('a2', 'a3'), 'Pn': ('v4', 'v4'),
        'Pp': ('a3', 'a3'), 'Pr': ('a3', 'a3'), 'Pa': ('a3', 'v4'), 'Pat': ('v4', 'a3'), 'P1': ('a3', 'v1'), 'P1t': ('v1', 'a3'),
        'Rv': ('m22', 'v4'), 'Rvt': ('v4', 'm22'), 'Rs': ('v4', 'm22'), 'Rst': ('m22', 'v4'),
        'R41': ('m41', 'v4'), 'R41t': ('v4', 'm41'), 'Rn': ('m22', 'm22'), 'M01': ('m22', 'm22'), 'M10': ('m22', 'm22'), 'Mx': ('m22', 'm22'),
        'D4': ('v4', 'v4'), 'D3': ('a3', 'a3'), 'k3': ('a3', 'a3'), 'k4': ('v4', 'v4'), 'I4': ('v4', 'v4'),
    },
    'INV': {
        'D': ('a', 'a'), 'Di': ('a', 'a'), 'Dx': ('a', 'a'), 'Dz': ('a', 'a'), 'Dzi': ('a', 'a'),
        'S': ('a', 'a'), 'Si': ('a', 'a'), 'Sx': ('a', 'a'), 'Q': ('a', 'a'),
        'k2': ('a', 'a'), 'km': ('a', 'a'), 'kmi': ('a', 'a'), 'I': ('a', 'a'),
        # a user-defined SPD operator without a hand-written transpose: Y.T is the library's lazy transpose, Yti its lazy inverse
        'Y': ('a', 'a'), 'Yt': ('a', 'a'), 'Yti': ('a', 'a'),
    },
    'BLK': {
        'Rw': ('L', 'a'), 'Cl': ('a', 'L'), 'Dg': ('L', 'L'), 'Dd': ('L', 'L'), 'Ddi': ('L', 'L'),
        'DgI': ('L', 'L'), 'Dgt': ('L', 'L'), 'Rw1': ('L1', 'a'), 'Cl1': ('a', 'L1'), 'Dg1': ('L1', 'L1'),
        'RwN': ('N', 'a'), 'DgN': ('N', 'N'), 'DgX': ('N', 'N'), 'ClN': ('a', 'N'),
        'P': ('a', 'a'), 'k2': ('a', 'a'), 'IL': ('L', 'L'), 'kL': ('L', 'L'),
        'Dr': ('T', 'T'), 'Drt': ('T', 'T'), 'RwT': ('T', 'S'), 'ClT': ('S', 'T'),
        'Bm': ('LM', 'LM'), 'Bmi': ('LM', 'LM'), 'Bv': ('LM', 'LV'), 'Bvt': ('LV', 'LM'), 'Dh': ('T', 'T'),
    },
    # move-axis operators in every spelling on a pytree whose leaves have different ranks (all dims 2, so every operator
    # maps the space to itself and any two compose); the inverse-pair rule must not be fooled by mixed-sign spellings
    'AXT': {
        'Ma': ('t', 't'), 'Mb': ('t', 't'), 'Mc': ('t', 't'), 'Md': ('t', 't'), 'Me': ('t', 't'), 'Mf': ('t', 't'), 'Mg': ('t', 't'),
        'Mh': ('t', 't'), 'Dt': ('t', 't'), 'kt': ('t', 't'),
    },
    # user-extension domain: toy operators and toy AbstractBinaryRules defined in the harness; the only way to reach the
    # driver's "a rule produced a scalar => relocate it and restart" branch, which no library rule exercises
    'EXT': {
        'U': ('a', 'a'), 'V': ('a', 'a'), 'W': ('a', 'a'), 'K': ('a', 'a'), 'P': ('a', 'a'), 'I': ('a', 'a'),
        'G': ('a', 'b'), 'Gt': ('b', 'a'), 'Kb': ('b', 'b'), 'Ub': ('b', 'b'), 'Vb': ('b', 'b'),
        # the dtype changes along the chain: 4 float16 inputs (8 bytes) -> 3 float32 outputs (12 bytes)
        'Pw': ('h4', 'h3'), 'Dw': ('h3', 'b'), 'kh': ('h4', 'h4'),
    },
}

EXACT = {'POL': False, 'IDX': True, 'INV': False, 'BLK': False, 'EXT': True, 'AXT': True}


def typed_chains(domain: str, max_len: int, min_len: int = 1):
    t = TYPES[domain]
    names = list(t)
    out = []
    for L in range(min_len, max_len + 1):
        for combo in itertools.product(names, repeat=L):
            if all(t[combo[i]][0] == t[combo[i + 1]][1] for i in range(L - 1)):
                out.append(list(combo))
    return out


_BUILT: dict[str, dict] = {}


_TOY = {}


def _toy_spd_class():
    """A user-level operator class (defined once per process): square, dense symmetric positive-definite action, NO transpose
    method of its own - `.T` is the library's lazy TransposeOperator."""
    if 'cls' not in _TOY:
        import equinox
        import jax

        from furax._base.core import AbstractLinearOperator, square

        @square
        class ToySPD(AbstractLinearOperator):
            matrix: jax.Array
            _in_structure: object = equinox.field(static=True)

            def mv(self, x):
                return self.matrix @ x

            def in_structure(self):
                return self._in_structure

        _TOY['cls'] = ToySPD
    return _TOY['cls']


def build(domain: str, variant: int = 0, fresh: bool = False) -> dict:
    """Returns {name: operator}; built once per worker process so that identity relations are stable.

    fresh=True builds a new, uncached set of operators whose floating-point parameters are scaled by 2**variant (exact):
    used to build "the same expressions with other values" after an earlier set has been dropped."""
    if domain in _BUILT and not fresh:
        return _BUILT[domain]
    import jax
    import jax.numpy as jnp

    from furax._base.axes import MoveAxisOperator, RavelOperator, ReshapeOperator
    from furax._base.blocks import BlockColumnOperator, BlockDiagonalOperator, BlockRowOperator
    from furax._base.core import HomothetyOperator, IdentityOperator
    from furax._base.dense import DenseBlockDiagonalOperator
    from furax._base.diagonal import DiagonalOperator
    from furax._base.indices import IndexOperator
    from furax._base.linear import PackOperator
    from furax.landscapes import StokesPyTree
    from furax.operators.hwp import HWPOperator
    from furax.operators.polarizers import LinearPolarizerOperator
    from furax.operators.qu_rotations import QURotationOperator

    f32 = jnp.float32

    def sds(*shape):
        return jax.ShapeDtypeStruct(shape, f32)

    def arr(v, dt=f32):
        return jnp.asarray(v, dtype=dt) * jnp.asarray(2.0 ** variant, dtype=dt)

    def dense(m, s):
        return DenseBlockDiagonalOperator(arr(m), s, 'ij,j->i')

    def hom(v, s):
        return HomothetyOperator(arr(v), s)

    atoms: dict = {}
    spaces: dict = {}
    if domain == 'POL':
        S = StokesPyTree.class_for('IQU').structure_for((2,), f32)
        D = sds(2)
        spaces = {'S': S, 'D': D}
        R1 = QURotationOperator(arr([0.3, -1.1]), S)
        R2 = QURotationOperator(arr(2.0), S)
        atoms = {
            'R1': R1, 'R2': R2, 'R1t': R1.T, 'R2t': R2.T, 'R1x': QURotationOperator(arr([0.3, -1.1]), S),
            'Rnp': QURotationOperator(__import__('numpy').array([0.9, -0.4], dtype='float32'), S),  # NumPy angles: mutable storage

            'H': HWPOperator(S), 'Pol': LinearPolarizerOperator(S), 'Is': IdentityOperator(S),
            'k2': hom(2.0, S), 'km': hom(-0.5, S), 'Id': IdentityOperator(D), 'k4': hom(4.0, D),
        }
    elif domain == 'IDX':
        a3, a2, v4, m22, m41 = sds(3), sds(2), sds(4), sds(2, 2), sds(4, 1)
        spaces = {'a3': a3, 'a2': a2, 'v4': v4, 'm22': m22, 'm41': m41, 'v1': sds(1)}
        P1 = IndexOperator(jnp.array([2]), in_structure=a3)   # a one-element index array, uniqueness not declared
        R41 = RavelOperator(in_structure=m41)
        P = IndexOperator(jnp.array([0, 2, 2, -1]), in_structure=a3, out_structure=v4)
        Pu = IndexOperator(jnp.array([2, 0]), in_structure=a3, out_structure=a2, unique_indices=True)
        Ps = IndexOperator(slice(0, 2), in_structure=a3, out_structure=a2)
        Pm = IndexOperator(jnp.array([True, False, True]), in_structure=a3, out_structure=a2)
        Pk = PackOperator(jnp.array([False, True, True]), a3)
        # shape-preserving selections that are NOT the identity, and an index whose negative entries alias non-negative ones
        Pp = IndexOperator(jnp.array([2, 0, 1]), in_structure=a3, out_structure=a3)
        Pr = IndexOperator(slice(None, None, -1), in_structure=a3, out_structure=a3)
        Pa = IndexOperator(jnp.array([0, -3, 1, -1]), in_structure=a3, out_structure=v4)
        Rv = RavelOperator(in_structure=m22)
        Rs = ReshapeOperator((2, 2), in_structure=v4)
        atoms = {
            'P': P, 'Pt': P.T, 'Pu': Pu, 'Put': Pu.T, 'Ps': Ps, 'Pst': Ps.T, 'Pm': Pm, 'Pmt': Pm.T,
            'Pp': Pp, 'Pr': Pr, 'Pa': Pa, 'Pat': Pa.T, 'P1': P1, 'P1t': P1.T,
            'Pk': Pk, 'Pkt': Pk.T, 'Pn': IndexOperator((slice(None),), in_structure=v4, out_structure=v4),
            'Rv': Rv, 'Rvt': Rv.T, 'Rs': Rs, 'Rst': Rs.T, 'R41': R41, 'R41t': R41.T, 'Rn': ReshapeOperator((2, -1), in_structure=m22),
            'M01': MoveAxisOperator(0, 1, in_structure=m22), 'M10': MoveAxisOperator(1, 0, in_structure=m22),
            'Mx': MoveAxisOperator((0, 1), (1, 0), in_structure=m22),
            'D4': DiagonalOperator(arr([2.0, 3.0, 5.0, 7.0]), in_structure=v4),
            'D3': DiagonalOperator(arr([2.0, -1.0, 4.0]), in_structure=a3),
            'k3': hom(2.0, a3), 'k4': hom(-3.0, v4), 'I4': IdentityOperator(v4),
        }
    elif domain == 'INV':
        a = sds(2)
        spaces = {'a': a}
        D = DiagonalOperator(arr([2.0, 4.0]), in_structure=a)
        Dz = DiagonalOperator(arr([2.0, 0.0]), in_structure=a)
        S = dense([[2.0, 1.0], [1.0, 3.0]], a)
        km = hom(-0.5, a)
        Y = _toy_spd_class()(arr([[3.0, 1.0], [1.0, 2.0]]), a)
        Yt = Y.T
        atoms = {
            'Y': Y, 'Yt': Yt, 'Yti': Yt.I,
            'D': D, 'Di': D.I, 'Dx': DiagonalOperator(arr([2.0, 4.0]), in_structure=a), 'Dz': Dz, 'Dzi': Dz.I,
            'S': S, 'Si': S.I, 'Sx': dense([[2.0, 1.0], [1.0, 3.0]], a), 'Q': dense([[0.0, 1.0], [-1.0, 2.0]], a),
            'k2': hom(2.0, a), 'km': km, 'kmi': km.I, 'I': IdentityOperator(a),
        }
    elif domain == 'BLK':
        a = sds(2)
        L, L1, N = [a, a], [a], [[a, a]]
        S = StokesPyTree.class_for('QU').structure_for((2,), f32)
        T = [S, S]
        m22, v4 = sds(2, 2), sds(4)
        spaces = {'a': a, 'L': L, 'L1': L1, 'N': N, 'S': S, 'T': T, 'LM': [m22, m22], 'LV': [v4, v4]}
        M01, M10 = MoveAxisOperator(0, 1, in_structure=m22), MoveAxisOperator(1, 0, in_structure=m22)
        Rv = RavelOperator(in_structure=m22)
        Bv = BlockDiagonalOperator([Rv, Rv])
        P = dense([[1.0, 2.0], [3.0, 5.0]], a)
        Q = dense([[0.0, 1.0], [-1.0, 2.0]], a)
        D = DiagonalOperator(arr([2.0, 4.0]), in_structure=a)
        I = IdentityOperator(a)
        R = QURotationOperator(arr([0.3, -1.1]), S)
        Dg = BlockDiagonalOperator([P, Q])
        Dd = BlockDiagonalOperator([D, I])
        Dr = BlockDiagonalOperator([R, R])
        atoms = {
            'Rw': BlockRowOperator([P, Q]), 'Cl': BlockColumnOperator([Q, P]), 'Dg': Dg, 'Dd': Dd, 'Ddi': Dd.I,
            'DgI': BlockDiagonalOperator([I, IdentityOperator(a)]), 'Dgt': Dg.T,
            'Rw1': BlockRowOperator([P]), 'Cl1': BlockColumnOperator([Q]), 'Dg1': BlockDiagonalOperator([D]),
            'RwN': BlockRowOperator([[P, Q]]), 'DgN': BlockDiagonalOperator([[P, Q]]),
            'DgX': BlockDiagonalOperator([Dg]), 'ClN': BlockColumnOperator([[Q, P]]),
            'P': P, 'k2': hom(2.0, a), 'IL': IdentityOperator(L), 'kL': hom(-2.0, L),
            'Dr': Dr, 'Drt': Dr.T, 'RwT': BlockRowOperator([R, R.T]), 'ClT': BlockColumnOperator([R.T, R]),
            # block products that cancel only through a rule inside the block (not through the `@` shortcut)
            'Dh': BlockDiagonalOperator([HWPOperator(S), HWPOperator(S)]),   # parameter-free blocks that are not identities
            'Bm': BlockDiagonalOperator([M01, M01]), 'Bmi': BlockDiagonalOperator([M10, M10]), 'Bv': Bv, 'Bvt': Bv.T,
        }
    elif domain == 'AXT':
        t = {'a': sds(2, 2), 'b': sds(2, 2, 2)}
        spaces = {'t': t}
        mk = lambda s_, d_: MoveAxisOperator(s_, d_, in_structure=t)  # noqa: E731
        atoms = {
            'Ma': mk(0, 1), 'Mb': mk(1, 0), 'Mc': mk(0, -1), 'Md': mk(-1, 0), 'Me': mk(-2, -1), 'Mf': mk(-1, -2), 'Mg': mk(1, -1), 'Mh': mk(-1, 1),
            'Dt': DiagonalOperator(arr([2.0, 3.0]), axis_destination=0, in_structure=t), 'kt': hom(-2.0, t),
        }
    elif domain == 'EXT':
        from furax._base.core import AbstractLinearOperator, square
        from furax._base.rules import AbstractBinaryRule

        a, b = sds(2), sds(3)
        h4, h3 = jax.ShapeDtypeStruct((4,), jnp.float16), jax.ShapeDtypeStruct((3,), jnp.float16)
        spaces = {'a': a, 'b': b, 'h4': h4, 'h3': h3}
        from furax._base.diagonal import BroadcastDiagonalOperator

        @square
        class ToyScale(AbstractLinearOperator):
            k: float
            _in_structure: object = __import__('equinox').field(static=True)

            def mv(self, x):
                return jax.tree.map(lambda leaf: self.k * leaf, x)

            def in_structure(self):
                return self._in_structure

        class ToyU(ToyScale):
            pass

        class ToyV(ToyScale):
            pass

        class ToyW(ToyScale):
            pass

        class ToyW2(ToyScale):
            pass

        class ToyScalarRule(AbstractBinaryRule):
            """U @ V -> a scalar operator (sound: both are scalings)."""

            left_operator_class = ToyU
            right_operator_class = ToyV

            def apply(self, left, right):
                return [HomothetyOperator(jnp.asarray(left.k * right.k, f32), right.in_structure())]

        class ToyPairRule(AbstractBinaryRule):
            """V @ W -> [W2, U]: a rule returning two operands, the second of which can react with a V on its right."""

            left_operator_class = ToyV
            right_operator_class = ToyW

            def apply(self, left, right):
                return [ToyW2(right.k, right.in_structure()), ToyU(left.k, right.in_structure())]

        atoms = {
            'U': ToyU(3.0, a), 'V': ToyV(5.0, a), 'W': ToyW(7.0, a), 'K': hom(2.0, a), 'P': dense([[1.0, 2.0], [3.0, 5.0]], a),
            'I': IdentityOperator(a), 'G': dense([[1.0, 2.0], [3.0, 5.0], [-1.0, 4.0]], a),
            'Gt': DenseBlockDiagonalOperator(arr([[1.0, 0.0, 2.0], [-1.0, 3.0, 1.0]]), b, 'ij,j->i'),
            'Kb': hom(-3.0, b), 'Ub': ToyU(2.0, b), 'Vb': ToyV(-1.0, b),
            'Pw': IndexOperator(jnp.array([3, 0, 1]), in_structure=h4, out_structure=h3),
            'Dw': BroadcastDiagonalOperator(arr([2.0, 4.0, -1.0]), axis_destination=0, in_structure=h3),
            'kh': HomothetyOperator(jnp.asarray(2.0, jnp.float16), h4),
        }
    else:
        raise KeyError(domain)

    from . import probe as Pm_

    for name, (i, o) in TYPES[domain].items():
        op = atoms[name]
        if not Pm_.same_struct(op.in_structure(), spaces[i]) or not Pm_.same_struct(op.out_structure(), spaces[o]):
            raise RuntimeError(f'domain {domain}: atom {name} is declared {i}->{o} but is {op.in_structure()} -> {op.out_structure()}')
    if set(atoms) != set(TYPES[domain]):
        raise RuntimeError(f'domain {domain}: atoms and TYPES differ: {set(atoms) ^ set(TYPES[domain])}')
    if not fresh:
        _BUILT[domain] = atoms
    return atoms
