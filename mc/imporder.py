"""Import-order exploration: rewrite rules register themselves when their module is imported, and `import furax` imports
only a few of them.  A user process therefore reaches reduce() with the rule-bearing modules imported in SOME order, with
reductions possibly carried out in between.  Every sequence over the alphabet
    import <module>      (one of MODULES; dependencies come with it)
    touch                (reduce a composition that needs none of them: the registry is consulted)
up to a bound is executed in a fresh interpreter each (nothing can be un-imported), then everything is imported and a fixed
battery of reductions is evaluated.  Oracle: every battery outcome (class of the result, classes of its operands, and whether
it still denotes the unreduced map) equals the outcome of the reference order "import everything first".
"""
from __future__ import annotations

import itertools
import json
import os
import subprocess
import sys

MODULES = ['furax._base.indices', 'furax._base.blocks', 'furax._base.linear', 'furax.operators.qu_rotations', 'furax.operators.hwp',
           'furax.operators.polarizers']
BATTERIES = {
    'blocks': ['row@col', 'diag@diag', 'row@diag', 'diag@col', 'diag@diag_nested_products'],
    'core': ['idx@idxT_unique', 'idxT@idx', 'pack@packT', 'move@moveinv', 'reshape@reshapeT', 'Dinv@D'],
    'pol': ['R@R', 'R@HWP', 'Pol@HWP', 'RT@R', 'HWP@HWP'],
}


def sequences(tier):
    k = 2 if tier == 'quick' else 3
    seqs = [[]]
    for n in range(1, k + 1):
        for perm in itertools.permutations(MODULES, n):
            seqs.append(list(perm))
    return seqs


def plan_cases(tier, battery):
    # `touch` after `import furax` and after every import of the sequence (the densest placement: a rule set frozen at any
    # earlier point stays frozen); the reference is the empty sequence WITHOUT any early touch
    return [{'imports': s, 'touch': bool(s) or i == 1, 'battery': battery} for s in sequences(tier) for i in ((0, 1) if not s else (0,))]


def run_case(case, reference_cache={}):
    env = dict(os.environ, JAX_PLATFORMS='cpu', JAX_ENABLE_X64='0', PYTHONHASHSEED='0')
    src = os.path.join(os.environ.get('VERIF_REPO', '/repo'), 'src')
    env['PYTHONPATH'] = src + os.pathsep + os.path.dirname(os.path.dirname(os.path.abspath(__file__)))

    def child(c):
        r = subprocess.run([sys.executable, '-m', 'mc.imporder', json.dumps(c)], env=env, capture_output=True, text=True, timeout=900)
        line = [l for l in r.stdout.splitlines() if l.startswith('RESULT ')]
        if r.returncode != 0 or not line:
            return {'error': (r.stderr or r.stdout)[-1500:]}
        return json.loads(line[-1][7:])

    key = case['battery']
    if key not in reference_cache:
        reference_cache[key] = child({'imports': [], 'touch': False, 'battery': case['battery']})
    ref = reference_cache[key]
    got = child(case)
    problems = []
    if 'error' in ref:
        problems.append(('reference-order-fails', ref['error']))
        return problems
    if 'error' in got:
        problems.append(('import-order-fails', got['error']))
        return problems
    for item, want in ref.items():
        g = got.get(item)
        if g != want:
            problems.append(('reduction-depends-on-import-order', f'{item}: after {"import furax; touch; " if case["touch"] else ""}'
                             f'{"; touch; ".join("import " + m for m in case["imports"])}{"; touch" if case["imports"] else ""} the reduction gives {g}, '
                             f'with everything imported first it gives {want}'))
        elif not want.get('same_map', True):
            problems.append(('reduce-changes-map', f'{item}: {want}'))
    return problems


def run(phase, cases, ctx):
    """Worker entry point (phase target 'mc.imporder:run'): one fresh interpreter per case."""
    import collections

    violations = []
    counters = collections.Counter()
    nontrivial = set()
    for case in cases:
        for kind, detail in run_case(case):
            violations.append({'kind': kind, 'case': case, 'detail': detail})
        counters['import_orders'] += 1
        nontrivial.add(json.dumps(case))
    return {'n': len(cases), 'violations': violations, 'counters': counters, 'nontrivial': nontrivial, 'samples': cases[:1],
            'states': set(), 'terminals': set()}


def phase(tier, battery):
    return {'name': 'import_order', 'target': 'mc.imporder:run', 'x64': False, 'cases': plan_cases(tier, battery), 'chunk': 1}


# ------------------------------------------------------------------------------------------------- child
def _child(case):
    import importlib

    import furax  # noqa: F401
    import jax
    import jax.numpy as jnp
    import numpy as np
    from furax import MoveAxisOperator

    f32 = jnp.float32
    m22 = jax.ShapeDtypeStruct((2, 2), f32)

    def touch():
        (MoveAxisOperator(0, 1, in_structure=m22) @ MoveAxisOperator(0, 1, in_structure=m22) @ MoveAxisOperator(0, 1, in_structure=m22)).reduce()

    if case['touch']:
        touch()
    for m in case['imports']:
        importlib.import_module(m)
        if case['touch']:
            touch()
    for m in MODULES:
        importlib.import_module(m)
    from furax import RavelOperator, ReshapeOperator
    from furax._base.blocks import BlockColumnOperator, BlockDiagonalOperator, BlockRowOperator
    from furax._base.core import CompositionOperator
    from furax._base.dense import DenseBlockDiagonalOperator
    from furax._base.diagonal import DiagonalOperator
    from furax._base.indices import IndexOperator
    from furax._base.linear import PackOperator
    from furax.landscapes import StokesPyTree
    from furax.operators.hwp import HWPOperator
    from furax.operators.polarizers import LinearPolarizerOperator
    from furax.operators.qu_rotations import QURotationOperator
    from mc import probe as P

    a = jax.ShapeDtypeStruct((2,), f32)
    a3 = jax.ShapeDtypeStruct((3,), f32)
    S = StokesPyTree.class_for('IQU').structure_for((2,), f32)
    dn = lambda m: DenseBlockDiagonalOperator(jnp.asarray(m, f32), a, 'ij,j->i')  # noqa: E731
    Pm, Qm = dn([[1, 2], [3, 5]]), dn([[0, 1], [-1, 2]])
    D = DiagonalOperator(jnp.asarray([2.0, 4.0], f32), in_structure=a)
    R1, R2 = QURotationOperator(jnp.asarray([0.3, -1.1], f32), S), QURotationOperator(jnp.asarray(0.5, f32), S)
    H = HWPOperator(S)
    Pu = IndexOperator(jnp.array([2, 0]), in_structure=a3, unique_indices=True)
    Pi = IndexOperator(jnp.array([0, 2, 2, 1]), in_structure=a3)
    Pk = PackOperator(jnp.array([True, False, True]), a3)
    M01, M10 = MoveAxisOperator(0, 1, in_structure=m22), MoveAxisOperator(1, 0, in_structure=m22)
    Rs = ReshapeOperator((4,), in_structure=m22)
    items = {
        'row@col': [BlockRowOperator([Pm, Qm]), BlockColumnOperator([Qm, Pm])],
        'diag@diag': [BlockDiagonalOperator([Pm, Qm]), BlockDiagonalOperator([Qm, D])],
        'row@diag': [BlockRowOperator([Pm, Qm]), BlockDiagonalOperator([D, Qm])],
        'diag@col': [BlockDiagonalOperator([Pm, D]), BlockColumnOperator([Qm, Pm])],
        'diag@diag_nested_products': [BlockDiagonalOperator([R1, H]), BlockDiagonalOperator([R2, H])],
        'idx@idxT_unique': [Pu, Pu.T], 'idxT@idx': [Pi.T, Pi], 'pack@packT': [Pk, Pk.T], 'move@moveinv': [M01, M10],
        'reshape@reshapeT': [Rs, Rs.T], 'Dinv@D': [D.I, Qm, D, D.I, D],
        'R@R': [R1, R2], 'R@HWP': [R1, H], 'Pol@HWP': [LinearPolarizerOperator(S), H], 'RT@R': [R1.T, R2], 'HWP@HWP': [H, H],
    }
    out = {}
    for name in BATTERIES[case['battery']]:
        ops = items[name]
        comp = CompositionOperator(list(ops))
        with P.quiet():
            red = comp.reduce()
        ref = np.eye(P.ssize(ops[-1].in_structure()))
        for o in reversed(ops):
            ref = P.probe(o, cache=False).M @ ref
        M = P.probe(red, cache=False).M
        out[name] = {'class': type(red).__name__,
                     'operands': [type(o).__name__ for o in getattr(red, 'operands', [])] if isinstance(red, CompositionOperator) else [],
                     'blocks': [type(b).__name__ for b in jax.tree.leaves(getattr(red, 'blocks', []), is_leaf=lambda x: hasattr(x, 'mv'))],
                     'same_map': bool(M.shape == ref.shape and P.close(M, ref, 1e-5))}
    print('RESULT ' + json.dumps(out))


if __name__ == '__main__':
    _child(json.loads(sys.argv[1]))
