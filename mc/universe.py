"""Specimen universe U: one recipe per constructor branch / shortcut of every concrete operator class, and the
depth-<=2 composites over it.  Recipes are pure data (name, dtype tag); `build` returns a fresh real operator
(memoised per worker process - operators are immutable).  Every array parameter carries an explicit dtype no
wider than the data dtype.
"""
from __future__ import annotations

import os
import tempfile

SPECS = [
    # name, exact (comparisons exact in float arithmetic), tags
    ('identity_a', True), ('identity_tree', True), ('hom2_a', True), ('homneg_tree', True),
    ('dense_sq', True), ('dense_sq2', True), ('dense_rect', True), ('dense_default_m', True), ('dense_hij', True),
    ('dense_ell', True), ('dense_ikj', True), ('dense_tree_shared', True), ('dense_tree_perleaf', True),
    ('moveaxis_m', True), ('moveaxis_c', True), ('moveaxis_tree', True),
    ('ravel_m', True), ('ravel_c01', True), ('ravel_tree_neg', True), ('reshape_m', True), ('reshape_c_flat', True),
    ('reshape_noop', True), ('ravel_m_T', True), ('reshape_m_T', True),
    ('row_list', True), ('diag_list', True), ('col_list', True), ('row_dict', True), ('diag_dict', True), ('col_dict', True),
    ('diag_nested', True), ('row_single', True), ('diag_single', True), ('col_single', True), ('diag_treeblock', True),
    ('sum_pq', True), ('comp_pq', True), ('comp_sum_diag', True), ('neg_p', True), ('comp_two_scalars', True), ('comp_scalar_rect', True), ('comp_py_scalars', True), ('comp_py_scalar_moved', True),
    ('rot_iqu', False), ('rot_qu', False), ('rot_iquv_scalar', False), ('rot_iqu_T', False), ('rot_i', True),
    ('hwp_iqu', True), ('hwp_iquv', True), ('pol_iqu', True), ('pol_qu', True), ('pol_i', True), ('pol_iqu_T', True),
    ('toep_dense', True), ('toep_direct', True), ('toep_fft', False), ('toep_os', False), ('toep_batched', False),
    ('index_arr', True), ('index_slice', True), ('index_mask', True), ('index_ell', True), ('index_arr_T', True),
    ('index_tree', True), ('pack_iqu', True), ('pack_iqu_T', True),
    ('bdiag_left', True), ('bdiag_right', True), ('bdiag_left_T', True),
    ('diag_a', True), ('diag_m_axis0', True), ('diag_tree', True), ('diag_a_inv', True), ('diag_zero_inv', True),
    ('dense_complex', True), ('diag_complex', True), ('hom_complex', True), ('bdiag_complex', True), ('bdiag_complex_T', True), ('toep_os_short', False), ('k_int_times', True), ('k_float_times', True),
    ('dense_stokes', True), ('diag_tree_mixed', True), ('hom_tree_mixed', True), ('hom_unit_widening', True), ('diag_blocks_paramfree', True),
    ('diag_2d', True), ('diag_5', True), ('diag_tree_neg', True), ('dense_widening', True), ('bdiag_widening', True),
    ('lazy_inv_spd', False), ('toast_obs', True), ('toast_obs_T', True),
    ('opt_k1arr_times_0d', True), ('opt_0d_div_k1arr', True), ('opt_k11arr_times_tree0d', True), ('opt_diag_trailing_unit', True),
    ('comp_ptp_index', True), ('comp_ppt_index_unique', True), ('comp_ptp_index_2d', True),
    ('toep_dense_wide', True), ('toep_os_n8', False), ('toep_os_k2n6', False), ('toep_os_k1n3', False), ('toep_os_oddfft', False), ('toep_os_minfft', False), ('rot_iqu_far', False), ('rot_qu_far_T', False),
]
SPEC_NAMES = [s[0] for s in SPECS]
EXACT = dict(SPECS)
NO_TRANSPOSE = {'lazy_inv_spd'}          # the library does not support transposes of the iterative inverse
# opt_*: constructions the library may legitimately refuse (ValueError/TypeError); if it accepts them, every oracle applies
OPTIONAL = {'opt_k1arr_times_0d', 'opt_0d_div_k1arr', 'opt_k11arr_times_tree0d', 'opt_diag_trailing_unit'}
SINGLE_ONLY = OPTIONAL | {'toep_os_oddfft', 'toep_os_minfft', 'comp_ptp_index', 'comp_ppt_index_unique', 'comp_ptp_index_2d', 'toep_os_n8', 'toep_os_k2n6', 'toep_os_k1n3', 'toep_os', 'toep_batched', 'toep_os_short', 'dense_widening', 'bdiag_widening', 'dense_complex', 'diag_complex', 'hom_complex', 'bdiag_complex', 'bdiag_complex_T', 'diag_tree_mixed', 'hom_tree_mixed', 'hom_unit_widening'}  # widening: float16 data would overflow in products  # ~100 ms per application (fori_loop re-traced): singles only; C09 owns the methods
MASKED = {'index_mask', 'pack_iqu', 'pack_iqu_T'}  # boolean-mask selection: excluded from the filter_jit-as-argument claim

_MEMO: dict = {}
_TMP = []


def dtype_of(tag):
    import jax.numpy as jnp

    return {'f32': jnp.float32, 'f64': jnp.float64}[tag]


def build(name: str, dt: str = 'f32'):
    key = (name, dt)
    if key in _MEMO:
        return _MEMO[key]
    op = _build(name, dt)
    _MEMO[key] = op
    return op


def _build(name, dt):
    import jax
    import jax.numpy as jnp
    import numpy as np

    from furax._base.axes import MoveAxisOperator, RavelOperator, ReshapeOperator
    from furax._base.blocks import BlockColumnOperator, BlockDiagonalOperator, BlockRowOperator
    from furax._base.core import HomothetyOperator, IdentityOperator
    from furax._base.dense import DenseBlockDiagonalOperator
    from furax._base.diagonal import BroadcastDiagonalOperator, DiagonalOperator
    from furax._base.indices import IndexOperator
    from furax._base.linear import PackOperator
    from furax.landscapes import StokesPyTree
    from furax.operators.hwp import HWPOperator
    from furax.operators.polarizers import LinearPolarizerOperator
    from furax.operators.qu_rotations import QURotationOperator
    from furax.operators.toeplitz import SymmetricBandToeplitzOperator

    D = dtype_of(dt)

    def sds(*shape):
        return jax.ShapeDtypeStruct(shape, D)

    def arr(v):
        return jnp.asarray(np.asarray(v, dtype=np.float64), dtype=D)

    def seq(*shape, start=1):
        n = int(np.prod(shape))
        primes = [2, 3, 5, 7, 11, 13, 17, 19, 23, 29, 31, 37, 41, 43, 47, 53, 59, 61, 67, 71, 73, 79, 83, 89]
        v = np.array([(primes[(k + start) % len(primes)]) * (-1 if k % 3 == 1 else 1) for k in range(n)], dtype=np.float64)
        return arr(v.reshape(shape))

    a, b, m, c = sds(2), sds(3), sds(2, 3), sds(2, 1, 3)
    tree = {'u': a, 'v': m}

    def stokes(kind, *shape):
        return StokesPyTree.class_for(kind).structure_for(shape, D)

    P = lambda: DenseBlockDiagonalOperator(arr([[1, 2], [3, 5]]), a, 'ij,j->i')  # noqa: E731
    Q = lambda: DenseBlockDiagonalOperator(arr([[0, 1], [-1, 2]]), a, 'ij,j->i')  # noqa: E731
    G = lambda: DenseBlockDiagonalOperator(arr([[1, 2], [3, 5], [-1, 4]]), a, 'ij,j->i')  # noqa: E731  a -> b
    Dg = lambda: DiagonalOperator(arr([2, 4]), in_structure=a)  # noqa: E731

    if name == 'identity_a':
        return IdentityOperator(a)
    if name == 'identity_tree':
        return IdentityOperator([a, m])
    if name == 'hom2_a':
        return HomothetyOperator(arr(2.0), a)
    if name == 'homneg_tree':
        return HomothetyOperator(arr(-0.5), tree)
    if name == 'dense_sq':
        return P()
    if name == 'dense_sq2':
        return Q()
    if name == 'dense_rect':
        return G()
    if name == 'dense_default_m':
        return DenseBlockDiagonalOperator(seq(3, 2), m)  # 'ij...,j...->i...': (3,2) x (2,3) -> (3,3)
    if name == 'dense_hij':
        return DenseBlockDiagonalOperator(seq(2, 2, 3), m, 'hij,hj->hi')
    if name == 'dense_ell':
        return DenseBlockDiagonalOperator(seq(2, 2, 3), m, '...ij,...j->...i')
    if name == 'dense_ikj':
        return DenseBlockDiagonalOperator(seq(2, 2, 3), m, 'ikj,kj->ki')
    if name == 'dense_tree_shared':
        return DenseBlockDiagonalOperator(seq(3, 2), {'u': a, 'v': m}, 'ij...,j...->i...')
    if name == 'dense_tree_perleaf':
        return DenseBlockDiagonalOperator({'u': seq(3, 2), 'v': seq(2, 2, start=5)}, {'u': a, 'v': m}, 'ij...,j...->i...')
    if name == 'moveaxis_m':
        return MoveAxisOperator(0, 1, in_structure=m)
    if name == 'moveaxis_c':
        return MoveAxisOperator((0, 2), (2, 1), in_structure=c)
    if name == 'moveaxis_tree':
        return MoveAxisOperator(0, -1, in_structure=[m, c])
    if name == 'ravel_m':
        return RavelOperator(in_structure=m)
    if name == 'ravel_c01':
        return RavelOperator(0, 1, in_structure=c)
    if name == 'ravel_tree_neg':
        return RavelOperator(-2, -1, in_structure=[c, m])
    if name == 'reshape_m':
        return ReshapeOperator((3, 2), in_structure=m)
    if name == 'reshape_c_flat':
        return ReshapeOperator((-1,), in_structure=c)
    if name == 'reshape_noop':
        return ReshapeOperator((2, -1), in_structure=m)
    if name == 'ravel_m_T':
        return RavelOperator(in_structure=m).T
    if name == 'reshape_m_T':
        return ReshapeOperator((3, 2), in_structure=m).T
    if name == 'row_list':
        return BlockRowOperator([P(), Q()])
    if name == 'diag_list':
        return BlockDiagonalOperator([P(), G()])
    if name == 'col_list':
        return BlockColumnOperator([G(), Q()])
    if name == 'row_dict':
        return BlockRowOperator({'y': G(), 'x': DenseBlockDiagonalOperator(seq(3, 2, start=3), a, 'ij,j->i')})
    if name == 'diag_dict':
        return BlockDiagonalOperator({'y': Q(), 'x': G()})
    if name == 'col_dict':
        return BlockColumnOperator({'y': P(), 'x': G()})
    if name == 'diag_nested':
        return BlockDiagonalOperator({'u': (P(), Dg()), 'v': G()})
    if name == 'row_single':
        return BlockRowOperator([G()])
    if name == 'diag_single':
        return BlockDiagonalOperator([G()])
    if name == 'col_single':
        return BlockColumnOperator([G()])
    if name == 'diag_treeblock':
        return BlockDiagonalOperator([IdentityOperator([a, a]), BlockRowOperator([P(), Q()])])
    if name == 'sum_pq':
        return P() + Q()
    if name == 'comp_pq':
        return P() @ Q()
    if name == 'comp_sum_diag':
        return (P() + Q()) @ Dg()
    if name == 'neg_p':
        return -P()
    if name == 'comp_two_scalars':   # reduce() has to merge two scalar factors (HomothetyRule rebuilds the factor)
        return (HomothetyOperator(arr(2.0), a) @ Dg()) @ (HomothetyOperator(arr(-3.0), a) @ Q())
    if name == 'comp_py_scalars':   # Python (weakly typed) scalar factors: the merged factor must stay weakly typed
        return (2.0 * P()) @ (3.0 * Q())
    if name == 'comp_py_scalar_moved':   # reduce() relocates the Python scalar to the smaller side
        return G() @ (2.0 * P())
    if name == 'comp_scalar_rect':   # scalar on the larger side: reduce() moves it to the smaller one
        return HomothetyOperator(arr(0.5), b) @ G() @ HomothetyOperator(arr(4.0), a)
    if name == 'rot_iqu':
        return QURotationOperator(arr([0.3, -1.1]), stokes('IQU', 2))
    if name == 'rot_qu':
        return QURotationOperator(arr([[0.3], [2.5]]), stokes('QU', 2, 3))
    if name == 'rot_iquv_scalar':
        return QURotationOperator(arr(0.7), stokes('IQUV', 2))
    if name == 'rot_iqu_T':
        return QURotationOperator(arr([0.3, -1.1]), stokes('IQU', 2)).T
    if name == 'rot_i':
        return QURotationOperator(arr([0.3, -1.1]), stokes('I', 2))
    if name == 'hwp_iqu':
        return HWPOperator(stokes('IQU', 2))
    if name == 'hwp_iquv':
        return HWPOperator(stokes('IQUV', 2, 3))
    if name == 'pol_iqu':
        return LinearPolarizerOperator(stokes('IQU', 2))
    if name == 'pol_qu':
        return LinearPolarizerOperator(stokes('QU', 2))
    if name == 'pol_i':
        return LinearPolarizerOperator(stokes('I', 2))
    if name == 'pol_iqu_T':
        return LinearPolarizerOperator(stokes('IQU', 2)).T
    if name == 'toep_os_short':   # short signal relative to the band: default FFT size larger than the padded signal
        return SymmetricBandToeplitzOperator(arr([4, 1, 0.5, 0.25]), sds(2))
    if name == 'opt_k1arr_times_0d':     # a one-element ARRAY as the scalar factor, on an operator with a 0-d output leaf
        return jnp.asarray([2.0], D) * IndexOperator(1, in_structure=b)
    if name == 'opt_0d_div_k1arr':
        return IndexOperator(-1, in_structure=b) / np.asarray([4.0], dtype=np.dtype(D))
    if name == 'opt_k11arr_times_tree0d':
        return np.asarray([[0.5]], dtype=np.dtype(D)) * IndexOperator((0,), in_structure={'u': a, 'v': m})
    if name == 'opt_diag_trailing_unit':  # diagonal values whose trailing unit axis reaches beyond the rank of one leaf
        return DiagonalOperator(arr([[2], [3]]), axis_destination=0, in_structure={'tod': m, 'ground': a})
    if name == 'comp_ptp_index':      # the very same operator on both sides: the pair the hit-count rule recognises
        Pi = IndexOperator(jnp.array([0, 2, 2, -1]), in_structure=b, out_structure=sds(4))
        return Pi.T @ Pi
    if name == 'comp_ptp_index_2d':
        Pi = IndexOperator((Ellipsis, jnp.array([[0, 2], [2, 2]])), in_structure=m)
        return Pi.T @ Pi
    if name == 'comp_ppt_index_unique':
        Pi = IndexOperator(jnp.array([2, 0]), in_structure=b, unique_indices=True)
        return Pi @ Pi.T
    if name == 'toep_dense_wide':  # far more band values than samples (offsets beyond n + 2)
        return SymmetricBandToeplitzOperator(arr([4, 1, 0.5, 0.25, 2, -1, 3, 0.125, -0.5]), sds(5), method='dense')
    if name == 'toep_os_n8':       # lengths for which the last kept sample falls on a block boundary of the default FFT size
        return SymmetricBandToeplitzOperator(arr([4, 1, 0.5, 0.25]), sds(8))
    if name == 'toep_os_k2n6':
        return SymmetricBandToeplitzOperator(arr([4, 1]), sds(6))
    if name == 'toep_os_oddfft':     # explicit odd FFT size (the smallest legal one is 2K-1, always odd)
        return SymmetricBandToeplitzOperator(arr([5, 3, 2, 1]), sds(9), fft_size=9)
    if name == 'toep_os_minfft':
        return SymmetricBandToeplitzOperator(arr([5, 3, 2, 1]), sds(6), fft_size=7)
    if name == 'toep_os_k1n3':
        return SymmetricBandToeplitzOperator(arr([4]), sds(3))
    if name == 'rot_iqu_far':      # angles many turns away from [0, pi) (a continuously rotating element)
        return QURotationOperator(arr([50000.3, -31000.7]), stokes('IQU', 2))
    if name == 'rot_qu_far_T':
        return QURotationOperator(arr([[-70001.1], [12345.6]]), stokes('QU', 2, 3)).T
    if name.startswith('toep_'):
        meth = {'toep_dense': 'dense', 'toep_direct': 'direct', 'toep_fft': 'fft', 'toep_os': 'overlap_save', 'toep_batched': 'overlap_save'}[name]
        if name == 'toep_batched':
            return SymmetricBandToeplitzOperator(arr([[4, 1, 0.5], [3, -1, 0.25]]), sds(2, 5), method=meth)
        return SymmetricBandToeplitzOperator(arr([4, 1, 0.5]), sds(5), method=meth)
    if name == 'index_arr':
        return IndexOperator(jnp.array([0, 2, 2, -1]), in_structure=b, out_structure=sds(4))
    if name == 'index_slice':
        return IndexOperator((slice(None), slice(0, 2)), in_structure=m, out_structure=sds(2, 2))
    if name == 'index_mask':
        return IndexOperator(jnp.array([True, False, True]), in_structure=b, out_structure=sds(2))
    if name == 'index_ell':
        return IndexOperator((Ellipsis, jnp.array([2, 0])), in_structure=c, out_structure=sds(2, 1, 2), unique_indices=True)
    if name == 'index_arr_T':
        return IndexOperator(jnp.array([0, 2, 2, -1]), in_structure=b, out_structure=sds(4)).T
    if name == 'index_tree':
        return IndexOperator((1,), in_structure={'u': m, 'v': c}, out_structure={'u': sds(3), 'v': sds(1, 3)})
    if name == 'pack_iqu':
        return PackOperator(jnp.array([True, False, True]), stokes('IQU', 3))
    if name == 'pack_iqu_T':
        return PackOperator(jnp.array([True, False, True]), stokes('IQU', 3)).T
    if name == 'bdiag_left':
        return BroadcastDiagonalOperator(seq(2, 3), axis_destination=-1, in_structure=b)
    if name == 'bdiag_right':
        return BroadcastDiagonalOperator(seq(2, 3), axis_destination=0, in_structure=a)
    if name == 'bdiag_left_T':
        return BroadcastDiagonalOperator(seq(2, 3), axis_destination=-1, in_structure=b).T
    if name == 'diag_a':
        return Dg()
    if name == 'diag_m_axis0':
        return DiagonalOperator(arr([2, -4]), axis_destination=0, in_structure=m)
    if name == 'diag_tree':
        return DiagonalOperator(arr([2, -4]), axis_destination=0, in_structure={'u': a, 'v': m})
    if name == 'diag_a_inv':
        return Dg().I
    if name == 'diag_zero_inv':
        return DiagonalOperator(arr([2, 0]), in_structure=a).I
    if name in ('dense_complex', 'diag_complex', 'hom_complex', 'bdiag_complex', 'bdiag_complex_T'):   # complex-valued parameters: the transpose must NOT conjugate
        C = jnp.complex64 if dt == 'f32' else jnp.complex128
        ac = jax.ShapeDtypeStruct((2,), C)
        if name.startswith('bdiag_complex'):   # its transpose is the library's generic lazy TransposeOperator
            o = BroadcastDiagonalOperator(jnp.asarray([[1 + 2j, 3, -1j], [2 - 1j, 4, 0.5j]], C), axis_destination=-1, in_structure=jax.ShapeDtypeStruct((3,), C))
            return o.T if name.endswith('_T') else o
        if name == 'dense_complex':
            return DenseBlockDiagonalOperator(jnp.asarray([[1 + 2j, 3], [-1j, 2 - 1j], [4, 0.5j]], C), ac, 'ij,j->i')
        if name == 'diag_complex':
            return DiagonalOperator(jnp.asarray([2 + 1j, -3j], C), in_structure=ac)
        return HomothetyOperator(jnp.asarray(0.5 - 2j, C), ac)
    if name == 'toep_os_short':   # short signal relative to the band: default FFT size larger than the padded signal
        return SymmetricBandToeplitzOperator(arr([4, 1, 0.5, 0.25]), sds(2))
    if name == 'k_int_times':
        return 2 * P()
    if name == 'k_float_times':
        return 2.0 * P()
    if name == 'dense_stokes':   # einsum blocks applied to every component of a Stokes container
        return DenseBlockDiagonalOperator(arr([[1, 2], [3, 5]]), stokes('IQU', 2), 'ij,j->i')
    if name == 'hom_tree_mixed':
        return HomothetyOperator(jnp.asarray(-0.5, jnp.float16), {'u': jax.ShapeDtypeStruct((2,), jnp.float16), 'v': jax.ShapeDtypeStruct((2, 3), D)})
    if name == 'hom_unit_widening':   # a strongly typed factor exactly equal to one, on narrower data
        return HomothetyOperator(jnp.asarray(1.0, D), jax.ShapeDtypeStruct((2,), jnp.float16))
    if name == 'diag_blocks_paramfree':   # blocks without any array parameter that are not identities
        return BlockDiagonalOperator([HWPOperator(stokes('IQU', 2)), RavelOperator(in_structure=m), HWPOperator(stokes('QU', 2))])
    if name == 'diag_tree_mixed':   # leaves of different dtypes: each keeps its own dtype
        return DiagonalOperator(jnp.asarray([2, -4], jnp.float16), axis_destination=0, in_structure={'u': jax.ShapeDtypeStruct((2,), jnp.float16), 'v': jax.ShapeDtypeStruct((2, 3), D)})
    if name == 'diag_5':   # same space as the Toeplitz specimens: symmetric-tagged operators that do not commute
        return DiagonalOperator(arr([2, -1, 4, 0.5, 3]), in_structure=sds(5))
    if name == 'diag_tree_neg':   # negative axis on leaves of different rank: it resolves to a different axis per leaf
        return DiagonalOperator(arr([2, -4, 8]), axis_destination=-1, in_structure={'u': b, 'v': m})
    if name == 'dense_widening':   # output dtype wider than the input dtype (float16 data, wider parameters)
        return DenseBlockDiagonalOperator(arr([[4097, 2], [3, 0.125]]), jax.ShapeDtypeStruct((2,), jnp.float16), 'ij,j->i')
    if name == 'bdiag_widening':
        return BroadcastDiagonalOperator(arr([[4097, 3, 5], [2, 8195, 1]]), axis_destination=-1, in_structure=jax.ShapeDtypeStruct((3,), jnp.float16))
    if name == 'diag_2d':
        return DiagonalOperator(seq(2, 3), axis_destination=(0, 1), in_structure=m)
    if name == 'lazy_inv_spd':
        return DenseBlockDiagonalOperator(arr([[2, 1], [1, 3]]), a, 'ij,j->i').I
    if name in ('toast_obs', 'toast_obs_T'):
        from furax.toast.obs_matrix import ToastObservationMatrixOperator

        d = tempfile.mkdtemp(prefix='verif_toast_')
        _TMP.append(d)
        path = os.path.join(d, f'obs_{dt}.npz')
        data = np.array([2.0, -1.0, 3.0, 5.0, 7.0], dtype=np.dtype(D))
        indices = np.array([0, 2, 1, 0, 2], dtype=np.int32)
        indptr = np.array([0, 2, 3, 5], dtype=np.int32)
        np.savez(path, format='csr', data=data, indices=indices, indptr=indptr, shape=np.array([3, 3]))
        op = ToastObservationMatrixOperator(path)
        return op if name == 'toast_obs' else op.T
    raise KeyError(name)


def cleanup():
    import shutil

    for d in _TMP:
        shutil.rmtree(d, ignore_errors=True)
    _TMP.clear()


import atexit  # noqa: E402

atexit.register(cleanup)


# ------------------------------------------------------------------------------------ case enumeration
def cases(tier: str, dts=('f32',), modulus=4):
    """Pure data: singles and ordered pairs of specimens (the worker forms every well-typed composite of a pair)."""
    out = []
    for dt in dts:
        for n in SPEC_NAMES:
            out.append({'a': n, 'dt': dt})
        names = [n for n in SPEC_NAMES if n not in SINGLE_ONLY]
        for i, x in enumerate(names):
            for j, y in enumerate(names):
                if tier == 'quick' and (i * 7 + j * 3) % modulus != 0 and not (_same_family(x, y) and (modulus <= 4 or (x in SYMMETRIC_TAGGED and y in SYMMETRIC_TAGGED))):
                    continue
                out.append({'a': x, 'b': y, 'dt': dt})
    return out


def mixed_cases():
    """64-bit mode only: A built in float32, B in float64 -> mixed-dtype pytrees through the block containers."""
    names = ['identity_a', 'hom2_a', 'dense_sq', 'dense_rect', 'diag_a', 'diag_tree', 'moveaxis_m', 'ravel_m', 'rot_iqu',
             'hwp_iqu', 'pol_iqu', 'index_arr', 'bdiag_left', 'toep_dense', 'sum_pq', 'comp_pq', 'row_list', 'col_dict']
    return [{'a': x, 'b': y, 'dt': 'f32', 'dt_b': 'f64'} for x in names for y in names]


SYMMETRIC_TAGGED = {'toep_dense_wide', 'identity_a', 'hom2_a', 'diag_a', 'diag_a_inv', 'diag_5', 'toep_dense', 'toep_direct', 'toep_fft', 'hwp_iqu', 'diag_m_axis0', 'diag_2d'}


def _same_family(x, y):
    return x.split('_')[0] == y.split('_')[0] or (x in SYMMETRIC_TAGGED and y in SYMMETRIC_TAGGED)


def materialize(case):
    """Yields (descriptor, operator, exact) for a case: the specimen itself, or every well-typed composite of the pair:
    A @ B, A + B, A - B, 3 * (A @ B), block row / diagonal / column of (A, B)."""
    from furax._base.blocks import BlockColumnOperator, BlockDiagonalOperator, BlockRowOperator

    from . import probe as P

    dt = case['dt']
    A = build(case['a'], dt)
    if 'b' not in case:
        yield dict(case, form='single'), A, EXACT[case['a']]
        return
    B = build(case['b'], case.get('dt_b', dt))
    exact = EXACT[case['a']] and EXACT[case['b']]
    ai, ao, bi, bo = A.in_structure(), A.out_structure(), B.in_structure(), B.out_structure()
    if P.same_struct(ai, bo):
        yield dict(case, form='A@B'), A @ B, exact
        yield dict(case, form='3*(A@B)'), 3 * (A @ B), exact
        if case.get('xf'):   # scalar factors that are not the leftmost operand, and one that has to be rebuilt (C05, C01)
            yield dict(case, form='A@(3*B)'), A @ (3 * B), exact
            yield dict(case, form='-(3*A)@B'), -(3 * A) @ B, exact
    if P.same_struct(ai, bi) and P.same_struct(ao, bo):
        yield dict(case, form='A+B'), A + B, exact
        yield dict(case, form='A-B'), A - B, exact
    yield dict(case, form='diag[A,B]'), BlockDiagonalOperator([A, B]), exact
    if P.same_struct(ao, bo):
        yield dict(case, form='row{A,B}'), BlockRowOperator({'q': A, 'p': B}), exact
    if P.same_struct(ai, bi):
        yield dict(case, form='col(A,B)'), BlockColumnOperator((A, B)), exact


def discover_classes():
    """All concrete AbstractLinearOperator subclasses defined under furax (imported by walking the package)."""
    import importlib
    import inspect
    import pkgutil

    import furax
    from furax._base.core import AbstractLinearOperator

    for mod in pkgutil.walk_packages(furax.__path__, 'furax.'):
        try:
            importlib.import_module(mod.name)
        except Exception:  # noqa: BLE001
            pass
    seen = set()
    stack = [AbstractLinearOperator]
    while stack:
        c = stack.pop()
        for s in c.__subclasses__():
            if s not in seen:
                seen.add(s)
                stack.append(s)
    return sorted(
        c.__module__ + '.' + c.__qualname__ for c in seen
        if c.__module__.startswith('furax') and not inspect.isabstract(c) and not c.__name__.startswith('Abstract')
    )


def classes_in(op, acc=None):
    """Class names of op and of every operator nested in it."""
    import dataclasses

    from furax._base.core import AbstractLinearOperator

    acc = set() if acc is None else acc

    def walk(x, depth=0):
        if depth > 6:
            return
        if isinstance(x, AbstractLinearOperator):
            acc.add(type(x).__module__ + '.' + type(x).__qualname__)
            for f in dataclasses.fields(x):
                walk(getattr(x, f.name, None), depth + 1)
        elif isinstance(x, (list, tuple)):
            for e in x:
                walk(e, depth + 1)
        elif isinstance(x, dict):
            for e in x.values():
                walk(e, depth + 1)

    walk(op)
    return acc
