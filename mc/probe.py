"""Basis probing: decides `for all inputs` for a linear map by applying the REAL `op.mv` eagerly to every
unit vector of the flattened input pytree (leaves in pytree order, row-major inside a leaf).

Nothing here uses as_matrix / jit / vmap / fori_loop, so the probe is independent of every override it is
later compared with.
"""
from __future__ import annotations

import contextlib
import io
import sys
import traceback

import jax
import jax.numpy as jnp
import numpy as np


# ---------------------------------------------------------------------------------------- structures
def sleaves(struct):
    return jax.tree.leaves(struct)


def ssize(struct) -> int:
    return int(sum(int(np.prod(l.shape)) for l in sleaves(struct)))


def ssig(struct):
    """Hashable signature of a structure: treedef + (shape, dtype) per leaf; weak types ignored."""
    leaves, treedef = jax.tree.flatten(struct)
    return (str(treedef), tuple((tuple(l.shape), str(np.dtype(l.dtype))) for l in leaves))


def same_struct(a, b) -> bool:
    return ssig(a) == ssig(b)


def actual_struct_sig(value):
    leaves, treedef = jax.tree.flatten(value)
    return (str(treedef), tuple((tuple(np.shape(l)), str(np.asarray(l).dtype) if not hasattr(l, 'dtype') else str(np.dtype(l.dtype))) for l in leaves))


def unflat(vec: np.ndarray, struct):
    leaves, treedef = jax.tree.flatten(struct)
    out, o = [], 0
    for l in leaves:
        n = int(np.prod(l.shape))
        out.append(jnp.asarray(np.asarray(vec[o : o + n]).reshape(l.shape), dtype=l.dtype))
        o += n
    assert o == len(vec)
    return jax.tree.unflatten(treedef, out)


def flat(value) -> np.ndarray:
    leaves = jax.tree.leaves(value)
    if not leaves:
        return np.zeros(0)
    arrs = [np.asarray(l).ravel() for l in leaves]
    dt = np.complex128 if any(np.iscomplexobj(a) for a in arrs) else np.float64
    return np.concatenate([a.astype(dt) for a in arrs])


def basis_vec(struct, j: int, n: int | None = None):
    n = ssize(struct) if n is None else n
    v = np.zeros(n)
    v[j] = 1
    return unflat(v, struct)


@contextlib.contextmanager
def quiet():
    """Silences the default solver callback of lazy inverses (it prints)."""
    old = sys.stdout
    sys.stdout = io.StringIO()
    try:
        yield
        try:
            jax.effects_barrier()
        except Exception:
            pass
    finally:
        sys.stdout = old


class LibError(Exception):
    """An exception raised by library code while the harness was exercising it."""

    def __init__(self, where: str, exc: BaseException):
        self.where = where
        self.exc = exc
        self.tb = ''.join(traceback.format_exception(type(exc), exc, exc.__traceback__)[-6:])
        super().__init__(f'{where}: {type(exc).__name__}: {str(exc)[:300]}')


def from_library(exc: BaseException) -> bool:
    """True if the traceback of `exc` passes through the furax sources (then the exception is the library's behaviour and
    is reported as a violation, not as a harness failure)."""
    import os

    src = os.path.realpath(os.path.join(os.environ.get('VERIF_REPO', '/repo'), 'src'))
    tb = exc.__traceback__
    while tb is not None:
        if os.path.realpath(tb.tb_frame.f_code.co_filename).startswith(src):
            return True
        tb = tb.tb_next
    return False


def lib(where: str, fn, *a, **k):
    """Calls library code; any exception becomes a LibError carrying the place."""
    try:
        with quiet():
            return fn(*a, **k)
    except LibError:
        raise
    except Exception as e:  # noqa: BLE001
        raise LibError(where, e) from None
    except BaseException as e:  # NoReduction derives from BaseException
        if type(e).__name__ in ('KeyboardInterrupt', 'SystemExit', 'CaseTimeout'):
            raise
        raise LibError(where, e) from None


class Probe:
    __slots__ = ('M', 'out_sig', 'in_sig', 'ok')

    def __init__(self, M, in_sig, out_sig):
        self.M = M
        self.in_sig = in_sig
        self.out_sig = out_sig


_cache: dict[int, tuple[object, Probe]] = {}


def probe(op, cache: bool = True) -> Probe:
    """Dense matrix of `op` by eager application to every basis vector of op.in_structure()."""
    k = id(op)
    if cache and k in _cache and _cache[k][0] is op:
        return _cache[k][1]
    in_struct = lib('in_structure', op.in_structure)
    n = ssize(in_struct)
    cols = []
    out_sig = None
    for j in range(n):
        y = lib('mv', op.mv, basis_vec(in_struct, j, n))
        sig = actual_struct_sig(y)
        if out_sig is None:
            out_sig = sig
        elif sig != out_sig:
            raise LibError('mv', ValueError(f'output structure depends on the input: {sig} vs {out_sig}'))
        cols.append(flat(y))
    if n == 0:
        M = np.zeros((ssize(lib('out_structure', op.out_structure)), 0))
    else:
        M = np.stack(cols, axis=1)
    p = Probe(M, ssig(in_struct), out_sig)
    if cache:
        _cache[k] = (op, p)
    return p


def clear_cache() -> None:
    _cache.clear()


# ---------------------------------------------------------------------------------------- comparison
def tol_for(*dtypes, exact: bool = False) -> float:
    if exact:
        return 0.0
    f64 = all(np.dtype(d) in (np.dtype('float64'), np.dtype('complex128')) for d in dtypes) if dtypes else False
    return 1e-9 if f64 else 1e-4


def close(a: np.ndarray, b: np.ndarray, tol: float) -> bool:
    a = np.asarray(a)
    b = np.asarray(b)
    if a.shape != b.shape:
        return False
    if a.size == 0:
        return True
    if not (np.all(np.isfinite(a)) and np.all(np.isfinite(b))):
        return bool(np.array_equal(np.isnan(a), np.isnan(b)) and np.array_equal(np.where(np.isfinite(a), a, 0), np.where(np.isfinite(b), b, 0)) and np.array_equal(np.isinf(a), np.isinf(b)))
    scale = 1.0 + float(np.max(np.abs(b)))
    return bool(np.max(np.abs(a - b)) <= tol * scale)


def maxdiff(a, b) -> float:
    a = np.asarray(a)
    b = np.asarray(b)
    if a.shape != b.shape:
        return float('inf')
    if a.size == 0:
        return 0.0
    with np.errstate(all='ignore'):
        return float(np.nanmax(np.abs(a - b)))


def op_dtypes(op):
    return [l.dtype for l in sleaves(op.in_structure())] + [l.dtype for l in sleaves(op.out_structure())]


def mat_summary(M: np.ndarray, limit: int = 64) -> str:
    M = np.asarray(M)
    if M.size <= limit:
        return np.array2string(M, precision=4, suppress_small=True, max_line_width=200)
    return f'shape={M.shape} head={np.array2string(M.ravel()[:limit], precision=4)}'
