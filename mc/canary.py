"""Canaries against vacuity: each engine is fed a deliberately broken stand-in DEFINED HERE and must report it.
Run by setup_cmd; exits non-zero if an engine fails to see its canary."""
from __future__ import annotations

import sys


def canary_sched() -> None:
    from . import sched

    class GlobalCfg:  # a Config look-alike that keeps the active value in a module global (not context-local)
        value = 'default'

        def __init__(self, v):
            self.v = v

        def __enter__(self):
            self.old = GlobalCfg.value
            GlobalCfg.value = self.v

        def __exit__(self, *a):
            GlobalCfg.value = self.old

    def mk(v):
        def body(obs, ev, api):
            ev()
            with GlobalCfg(v):
                ev()
                obs.append(GlobalCfg.value)
                ev()
            obs.append(GlobalCfg.value)
        return body

    def make():
        GlobalCfg.value = 'default'
        return [{'body': mk('a')}, {'body': mk('b')}]

    r0 = sched.explore(make, 0)
    r1 = sched.explore(make, 1)
    assert r0['deterministic'] and r1['deterministic']
    assert len(r0['outcomes']) == 1, 'bound 0 must be sequential'
    assert len(r1['outcomes']) > 1, 'SCHED canary: the global look-alike must race under preemption bound 1'


def canary_history() -> None:
    # a look-alike that forgets to restore on exception must be caught by a stack model comparison
    state = ['default']

    class Leaky:
        def __init__(self, v):
            self.v = v

        def __enter__(self):
            self.old = state[0]
            state[0] = self.v

        def __exit__(self, et, ev, tb):
            if et is None:
                state[0] = self.old

    try:
        with Leaky('x'):
            raise KeyError
    except KeyError:
        pass
    assert state[0] != 'default', 'history canary'


def main() -> int:
    import importlib

    failed = []
    for name in ('canary_sched', 'canary_history', 'canary_xstate', 'canary_bex'):
        fn = globals().get(name)
        if fn is None:
            try:
                fn = getattr(importlib.import_module('mc.canary_jax'), name)
            except (ImportError, AttributeError):
                continue
        try:
            fn()
            print(f'canary {name}: reported as expected')
        except AssertionError as e:
            failed.append((name, e))
            print(f'canary {name}: NOT DETECTED {e}')
    return 1 if failed else 0


if __name__ == '__main__':
    sys.exit(main())
