"""Known findings: KNOWN_FINDINGS.txt is committed and never written at run time.

Lines:
  known: property=Cxx sig=<name> <what fails>
  fixed: property=Cxx <commit> <what failed>          (suppresses nothing)

Each `sig` names a matcher below that recognises ONE specific failing input / call site from the
violation's own witness; any other violation of the same property is still reported.
"""
from __future__ import annotations

import os
import re

HERE = os.path.dirname(os.path.dirname(os.path.abspath(__file__)))
PATH = os.path.join(HERE, 'KNOWN_FINDINGS.txt')


def load(prop: str) -> dict[str, str]:
    out: dict[str, str] = {}
    if not os.path.exists(PATH):
        return out
    for line in open(PATH):
        line = line.strip()
        m = re.match(r'known:\s+property=(\S+)\s+sig=(\S+)\s+(.*)', line)
        if m and m.group(1) == prop:
            out[m.group(2)] = m.group(3)
    return out


# ---- matchers -----------------------------------------------------------------------------------
# A matcher gets the violation dict {kind, case, detail, witness...} and answers True only for the
# exact recorded defect.

def _singular_diag_inverse(v: dict) -> bool:
    """F9: the unsound step is `Dz.I @ Dz` / `Dz @ Dz.I` (same object, diagonal with a zero entry)
    collapsing to the identity, by InverseBinaryRule or by the construction-time shortcut."""
    w = v.get('witness') or {}
    return bool(w.get('singular_inverse_collapse')) and not w.get('other_unsound')


def _dense_transpose_wider_params(v: dict) -> bool:
    """DenseBlockDiagonalOperator whose block values are wider than the data dtype: the hand-written transpose declares
    (and returns) the promoted dtype instead of the original input dtype.  Only this specimen, only the structure claim."""
    case = v.get('case') or {}
    return v.get('kind') == 'transpose-structure' and isinstance(case, dict) and case.get('a') == 'dense_widening' and case.get('form') == 'single'


MATCHERS = {
    'dense_transpose_dtype_wider_params': _dense_transpose_wider_params,
    'singular_diag_inverse_collapse': _singular_diag_inverse,
}


def classify(prop: str, v: dict, known: dict[str, str]) -> str | None:
    for sig in known:
        m = MATCHERS.get(sig)
        if m is not None and m(v):
            return sig
    return None
