"""Evidence writer: /verif/evidence/<id>.json per EVIDENCE.schema.json, validated with python3-vt's jsonschema."""
from __future__ import annotations

import json
import os
import shutil
import subprocess

HERE = os.path.dirname(os.path.dirname(os.path.abspath(__file__)))
SCHEMA = '/root/.vp/EVIDENCE.schema.json'


def _clean(o):
    if isinstance(o, (set, frozenset)):
        return sorted((_clean(x) for x in o), key=repr)
    if isinstance(o, (list, tuple)):
        return [_clean(x) for x in o]
    if isinstance(o, dict):
        return {str(k): _clean(v) for k, v in o.items()}
    if isinstance(o, (str, int, float, bool)) or o is None:
        return o
    return repr(o)


def write(prop, *, tier, seed, level, coverage, assumptions, wall_s, violations, known_findings=0):
    body = {
        'property_id': prop,
        'tier': tier,
        'seed': int(seed),
        'level': level,
        'coverage': _clean(coverage),
        'assumptions': list(assumptions),
        'wall_s': round(float(wall_s), 2),
        'violations': int(violations),
        'known_findings': int(known_findings),
        'repo': os.environ.get('VERIF_REPO', '/repo'),
    }
    d = os.path.join(HERE, 'evidence')
    os.makedirs(d, exist_ok=True)
    path = os.path.join(d, f'{prop}.json')
    tmp = path + '.tmp'
    with open(tmp, 'w') as f:
        json.dump(body, f, indent=1, sort_keys=True)
    os.replace(tmp, path)
    validate(path)
    return path


def validate(path: str) -> None:
    exe = shutil.which('python3-vt')
    if not exe or not os.path.exists(SCHEMA):
        return
    code = (
        'import json,sys,jsonschema;'
        's=json.load(open(sys.argv[1]));d=json.load(open(sys.argv[2]));'
        'jsonschema.validate(d,s)'
    )
    r = subprocess.run([exe, '-c', code, SCHEMA, path], capture_output=True, text=True)
    if r.returncode != 0:
        raise SystemExit(f'HARNESS-ERROR evidence file {path} does not validate:\n{r.stderr[-2000:]}')
