"""Sharded worker pool for bounded exhaustive enumeration (BEX).

The coordinator never imports JAX. Workers are `spawn`ed with the 64-bit switch fixed in their
environment, import furax from $VERIF_REPO/src, run `module:function(cases, ctx)` on a shard and
return a mergeable dict.  The coordinator asserts that every declared case was executed.
"""
from __future__ import annotations

import importlib
import multiprocessing as mp
import os
import signal
import sys
import time
import traceback
from collections import Counter
from concurrent.futures import ProcessPoolExecutor, as_completed
from concurrent.futures.process import BrokenProcessPool

REPO = os.environ.get('VERIF_REPO', '/repo')


class HarnessError(Exception):
    """Something went wrong in the machinery itself (never reported as a property violation)."""


class CaseTimeout(BaseException):
    pass


def _alarm(signum, frame):  # pragma: no cover
    raise CaseTimeout()


def worker_init(x64, repo: str) -> None:
    """x64: False, True, or 'late' = 64-bit mode switched on with jax.config.update only AFTER every furax module has been
    imported (anything a module computed at import time saw the 32-bit mode)."""
    late = x64 == 'late'
    if late:
        x64 = False
    os.environ['JAX_ENABLE_X64'] = '1' if x64 else '0'
    os.environ['JAX_PLATFORMS'] = 'cpu'
    src = os.path.join(repo, 'src')
    if src not in sys.path[:1]:
        sys.path.insert(0, src)
    signal.signal(signal.SIGALRM, _alarm)
    import warnings

    warnings.filterwarnings('ignore', message='JAX is not using 64-bit')
    warnings.filterwarnings('ignore', message='Explicitly requested dtype')
    warnings.filterwarnings('ignore', message='JAX is not using 64-bit precision')
    import logging

    logging.getLogger('jax_healpy').setLevel(logging.ERROR)   # its import-time note about 32-bit mode
    import jax  # noqa: F401

    jax.config.update('jax_enable_x64', bool(x64))
    import furax  # noqa: F401

    got = os.path.realpath(os.path.dirname(os.path.dirname(furax.__file__)))
    if got != os.path.realpath(src):
        raise HarnessError(f'furax imported from {got}, expected {src}')
    import pkgutil

    for m in pkgutil.walk_packages(furax.__path__, 'furax.'):
        try:
            importlib.import_module(m.name)
        except ImportError:   # optional third-party stacks (toast)
            pass
    from . import vid

    vid.install()    # adversarial-but-legal id() inside the furax modules (see mc/vid.py)
    if late:
        os.environ['JAX_ENABLE_X64'] = '1'
        jax.config.update('jax_enable_x64', True)


def _trim_memory(limit_mb: int = 1200) -> None:
    """Long-lived workers accumulate compiled XLA executables (one per distinct expression): past the limit the JAX
    compilation caches are dropped.  Only JAX's own caches - nothing the library keeps is touched."""
    try:
        with open('/proc/self/statm') as f:
            rss_mb = int(f.read().split()[1]) * os.sysconf('SC_PAGE_SIZE') // (1 << 20)
    except (OSError, ValueError, IndexError):
        return
    if rss_mb > limit_mb:
        import gc

        import jax

        jax.clear_caches()
        gc.collect()


def run_shard(target: str, phase: str, cases: list, ctx: dict) -> dict:
    modname, fname = target.split(':')
    fn = getattr(importlib.import_module(modname), fname)
    t0 = time.time()
    from . import vid

    vid.install()
    v0 = (vid.stats['calls'], vid.stats['reused'])
    _trim_memory()
    try:
        out = fn(phase, cases, ctx)
    except (CaseTimeout, Exception) as first:
        # An exception escaped the check's own guards.  If it comes out of the furax sources it is the library's behaviour
        # on some case: re-run the shard case by case so that the offending case becomes a violation (and every other case
        # is still executed); a watchdog timer that fired is treated the same way (the coordinator then confirms it in a
        # fresh process); anything else is a failure of the machinery.
        from .probe import from_library

        if not isinstance(first, CaseTimeout) and not from_library(first):
            raise HarnessError(f'worker function {target} failed on phase {phase}:\n{traceback.format_exc()}')
        signal.setitimer(signal.ITIMER_REAL, 0)
        out = {}
        for case in cases:
            try:
                part = fn(phase, [case], ctx)
            except CaseTimeout:
                signal.setitimer(signal.ITIMER_REAL, 0)
                part = {'n': 1, 'violations': [{'kind': 'timeout', 'case': case, 'detail': 'a watchdog timer of the check fired while this case was running'}]}
            except Exception as e:  # noqa: BLE001
                if not from_library(e):
                    raise HarnessError(f'worker function {target} failed on phase {phase}:\n{traceback.format_exc()}')
                tb = ''.join(traceback.format_exception(type(e), e, e.__traceback__)[-6:])
                part = {'n': 1, 'violations': [{'kind': 'library-raises-unguarded', 'case': case, 'detail': f'{type(e).__name__}: {e}\n{tb}'}]}
            part.setdefault('n', 1)
            out = merge(out, part)
    out.setdefault('n', len(cases))
    out['cpu_s'] = time.time() - t0
    out['vid_calls'] = vid.stats['calls'] - v0[0]
    out['vid_reused'] = vid.stats['reused'] - v0[1]
    return out


def merge(a: dict, b: dict) -> dict:
    """Merges shard results: ints/floats add, lists extend, sets union, dicts merge recursively."""
    for k, v in b.items():
        if k not in a:
            a[k] = v
        elif isinstance(v, bool):
            a[k] = a[k] and v
        elif isinstance(v, (int, float)):
            a[k] = a[k] + v
        elif isinstance(v, list):
            a[k] = a[k] + v
        elif isinstance(v, (set, frozenset)):
            a[k] = set(a[k]) | set(v)
        elif isinstance(v, Counter):
            a[k] = Counter(a[k]) + v
        elif isinstance(v, dict):
            a[k] = merge(dict(a[k]), v)
        else:
            raise HarnessError(f'cannot merge key {k} of type {type(v)}')
    return a


class Pools:
    """Lazily created pools, one per 64-bit mode."""

    def __init__(self, jobs: int):
        self.jobs = jobs
        self._pools: dict[bool, ProcessPoolExecutor] = {}

    def get(self, x64: bool) -> ProcessPoolExecutor:
        if x64 not in self._pools:
            ctx = mp.get_context('spawn')
            self._pools[x64] = ProcessPoolExecutor(
                max_workers=self.jobs, mp_context=ctx, initializer=worker_init, initargs=(x64, REPO)
            )
        return self._pools[x64]

    def drop(self, mode) -> None:
        p = self._pools.pop(mode, None)
        if p is not None:
            p.shutdown(wait=False, cancel_futures=True)

    def close(self) -> None:
        for p in self._pools.values():
            p.shutdown(wait=False, cancel_futures=True)
        self._pools.clear()


def _isolate(phase: dict, shards: list, ctx: dict, mode, log, jobs: int = 8) -> dict:
    import threading
    from concurrent.futures import ThreadPoolExecutor

    lock = threading.Lock()
    state = {'out': {}, 'died': 0}

    def add(part):
        with lock:
            state['out'] = merge(state['out'], part)

    def one_shard(shard):
        solo = Pools(1)
        try:
            add(solo.get(mode).submit(run_shard, phase['target'], phase['name'], shard, ctx).result())
            return
        except BrokenProcessPool:
            pass
        finally:
            solo.close()
        for case in shard:
            one = Pools(1)
            try:
                add(one.get(mode).submit(run_shard, phase['target'], phase['name'], [case], ctx).result())
            except BrokenProcessPool:
                with lock:
                    state['died'] += 1
                add({'n': 1, 'violations': [{'kind': 'worker-process-dies', 'case': case,
                                             'detail': 'the interpreter running this case alone in a fresh process died (crash, unbounded recursion or memory)'}]})
            finally:
                one.close()

    with ThreadPoolExecutor(max_workers=max(1, jobs)) as ex:
        list(ex.map(one_shard, shards))
    if state['died'] > 20:
        raise HarnessError(f'phase {phase["name"]}: {state["died"]} cases kill their worker process even when run alone')
    return state['out']


def run_phase(pools: Pools, phase: dict, ctx: dict, seed: int, log=print) -> dict:
    """phase = {name, target, cases, x64, chunk}; returns the merged result.

    The seed only rotates the order in which cases are dealt to shards; nothing is sampled.
    """
    import random

    cases = list(phase['cases'])
    n = len(cases)
    order = list(range(n))
    random.Random(seed).shuffle(order)
    chunk = max(1, int(phase.get('chunk') or max(1, n // (pools.jobs * 6) or 1)))
    shards = [[cases[i] for i in order[k : k + chunk]] for k in range(0, n, chunk)]
    mode = 'late' if phase.get('x64') == 'late' else bool(phase.get('x64', False))
    merged: dict = {}
    t0 = time.time()
    pending = list(range(len(shards)))
    restarts = 0
    while pending:
        # a worker killed from outside (the kernel's OOM killer on a crowded machine) takes the whole pool with it: the shards
        # that had not finished are run again on a fresh pool, twice at most; every shard's result is merged exactly once
        pool = pools.get(mode)
        futs = {pool.submit(run_shard, phase['target'], phase['name'], shards[i], ctx): i for i in pending}
        finished = set()
        try:
            for f in as_completed(futs):
                merged = merge(merged, f.result())
                finished.add(futs[f])
        except BrokenProcessPool as e:
            restarts += 1
            pools.drop(mode)
            if restarts > 2:
                # the pool keeps dying: something in these shards kills the interpreter itself.  Run every remaining shard in a
                # pool of its own, and the cases of a shard that dies one by one, so that the case is named in a violation
                pending = [i for i in pending if i not in finished]
                log(f'[phase {phase["name"]}] the pool died {restarts} times; isolating the {len(pending)} unfinished shards')
                merged = merge(merged, _isolate(phase, [shards[i] for i in pending], ctx, mode, log, pools.jobs))
                pending, finished = [], set()
                break
            log(f'[phase {phase["name"]}] a worker process was killed; restarting the pool for the {len(pending) - len(finished)} unfinished shards')
        pending = [i for i in pending if i not in finished]
    if merged.get('n', 0) != n:
        raise HarnessError(
            f'phase {phase["name"]}: executed {merged.get("n")} cases of {n} declared - not exhaustive'
        )
    log(
        f'[phase {phase["name"]}] x64={phase.get("x64") if phase.get("x64") == "late" else int(bool(phase.get("x64")))} cases={n} shards={len(shards)} '
        f'wall={time.time() - t0:.1f}s cpu={merged.get("cpu_s", 0):.1f}s'
    )
    return merged
