"""Generic BEX worker over the specimen universe: materialises the composites of each case and applies an oracle."""
from __future__ import annotations

import os

import collections
import json

from . import probe as P
from . import universe as U


def run(cases, oracle, extra=None):
    """oracle(desc, op, exact) -> (list of (kind, detail), nontrivial: bool)"""
    violations = []
    counters = collections.Counter()
    nontrivial = set()
    classes = set()
    samples = []
    for case in cases:
        try:
            items = list(P.lib('build', lambda: list(U.materialize(case))))
        except P.LibError as e:
            if case.get('a') in U.OPTIONAL and isinstance(e.exc, (ValueError, TypeError)):
                counters['optional_constructions_refused'] += 1
                continue
            violations.append({'kind': 'construction-raises', 'case': case, 'detail': f'{e}\n{e.tb}'})
            continue
        for desc, op, exact in items:
            counters['operators'] += 1
            counters['form:' + desc['form']] += 1
            try:
                from .pool import CaseTimeout
                from .xstate import Timeout

                try:
                    with Timeout(float(os.environ.get('VERIF_WATCHDOG_S') or 600)):   # watchdog: a reduce()/solve that never returns is a finding, not a hang
                        probs, nt = oracle(desc, op, exact)
                except CaseTimeout:
                    probs, nt = [('did-not-terminate', 'the oracle (mv / reduce / as_matrix / jit) did not return within 600 s')], False
            except P.LibError as e:
                probs, nt = [('library-raises', f'{e}\n{e.tb}')], False
            except Exception as e:  # noqa: BLE001
                if not P.from_library(e):
                    raise
                err = P.LibError('operator method', e)
                probs, nt = [('library-raises', f'{err}\n{err.tb}')], False
            for kind, detail in probs:
                violations.append({'kind': kind, 'case': desc, 'detail': detail})
            if nt:
                nontrivial.add(json.dumps(desc, sort_keys=True))
                if len(samples) < 2:
                    samples.append(desc)
            U.classes_in(op, classes)
        P.clear_cache()
    out = {'n': len(cases), 'violations': violations, 'counters': counters, 'nontrivial': nontrivial,
           'classes': classes, 'samples': samples}
    if extra:
        out.update(extra)
    return out


def coverage(results, rule, extra=None):
    counters = collections.Counter()
    nontrivial = set()
    classes = set()
    samples = []
    n = 0
    for res in results.values():
        counters.update(res.get('counters', {}))
        nontrivial |= set(res.get('nontrivial', ()))
        classes |= set(res.get('classes', ()))
        samples += res.get('samples', [])[:3]
        n += res['n']
    cov = {
        'evaluations': counters.get('operators', n), 'cases': n, 'distinct_nontrivial': len(nontrivial),
        'rule': rule, 'samples': samples[:8], 'exhaustive': True,
        'forms': {k[5:]: v for k, v in counters.items() if k.startswith('form:')},
        'classes_exercised': sorted(classes),
        'counters': {k: v for k, v in counters.items() if not k.startswith('form:')},
    }
    if extra:
        cov.update(extra)
    return cov
