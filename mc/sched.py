"""SCHED - stateless schedule exploration with iterative preemption bounding (CHESS style).

Real `threading.Thread`s, one semaphore baton per participant, exactly one participant runnable at any
time.  A scheduling point is (a) an explicit `ev()` call of the harness body (event granularity) and
(b), when `trace_files`/`trace_funcs` are given, every `call`/`line` trace event whose code object
matches (line granularity, via sys.settrace per thread).

An execution is identified by its choice list; choice 0 = "keep running the current participant" (or the
lowest enabled id when the current one is finished/blocked).  `explore` enumerates depth-first every
choice list whose number of preemptions (switching away from a still-enabled participant) is <= bound.
Replaying a prefix that diverges (different number of enabled participants at a point) is a hard error.
"""
from __future__ import annotations

import _thread
import contextvars
import sys
import threading
import time


class ScheduleDivergence(Exception):
    pass


def _wait(sem, what='baton', deadline=300.0):
    # Timed acquires only: on this interpreter/kernel an untimed Semaphore.acquire() was observed to miss a
    # wake-up once in a few thousand hand-overs (all three threads parked on futexes); the timed path re-checks
    # the counter and was never observed to stall.
    waited = 0.0
    while not sem.acquire(timeout=0.25):
        waited += 0.25
        if waited >= deadline:
            import faulthandler

            faulthandler.dump_traceback(all_threads=True)
            raise RuntimeError(f'SCHED: no hand-over within {deadline}s ({what})')


class Execution:
    def __init__(self, participants, prefix, trace_pred=None, expect_points=None):
        """participants: list of dict(body=callable(obs, ev, api), start='thread' | ('child', parent_idx))"""
        self.parts = participants
        self.n = len(participants)
        self.prefix = list(prefix)
        self.trace_pred = trace_pred
        self.sems = [threading.Semaphore(0) for _ in range(self.n)]
        self.main = threading.Semaphore(0)
        self.done = [False] * self.n
        self.started = [p.get('start', 'thread') == 'thread' for p in participants]
        self.child_ctx: dict[int, contextvars.Context] = {}
        self.obs = [[] for _ in range(self.n)]
        self.errors: list = [None] * self.n
        self.trace: list[int] = []
        self.points: list[tuple[int, bool]] = []
        self.where: list = []
        self.expect_points = expect_points

    # ---- participant side
    def _yield(self, tid, where):
        self._where = where
        self.main.release()
        _wait(self.sems[tid])

    def _tracer(self, tid):
        pred = self.trace_pred

        def local(frame, event, arg):
            if event == 'line':
                self._yield(tid, (frame.f_code.co_name, frame.f_lineno))
            return local

        def glob(frame, event, arg):
            if pred(frame.f_code):
                self._yield(tid, (frame.f_code.co_name, 'call'))
                return local
            return None

        return glob

    def _api(self, tid):
        ex = self

        class Api:
            def spawn(self, child):
                ex.child_ctx[child] = contextvars.copy_context()
                ex.started[child] = True

        return Api()

    def _run_outer(self, tid):
        try:
            self._run(tid)
        finally:
            self.exited[tid] = True

    def _run(self, tid):
        _wait(self.sems[tid])
        if self._abort:
            self.done[tid] = True
            self.main.release()
            return

        def inner():
            if self.trace_pred is not None:
                sys.settrace(self._tracer(tid))
            try:
                self.parts[tid]['body'](self.obs[tid], lambda: self._yield(tid, 'event'), self._api(tid))
            except BaseException as e:  # noqa: BLE001
                self.errors[tid] = e
            finally:
                sys.settrace(None)

        try:
            if tid in self.child_ctx:
                self.child_ctx[tid].run(inner)
            else:
                inner()
        finally:
            self.done[tid] = True
            self.main.release()

    # ---- scheduler side
    def run(self):
        self._abort = False
        # brand-new OS threads for every execution (a new thread starts from an empty context); started through
        # _thread so that no untimed wait is involved (threading.Thread.start() waits untimed on an Event)
        self.exited = [False] * self.n
        for i in range(self.n):
            _thread.start_new_thread(self._run_outer, (i,))
        cur = 0
        step = 0
        while True:
            enabled = [i for i in range(self.n) if self.started[i] and not self.done[i]]
            if not enabled:
                break
            order = ([cur] if cur in enabled else []) + [i for i in enabled if i != cur]
            c = self.prefix[step] if step < len(self.prefix) else 0
            if c >= len(order):
                self._abort = True
                for i in range(self.n):
                    if not self.done[i]:
                        self.sems[i].release()
                raise ScheduleDivergence(f'choice {c} out of range at point {step} (enabled {order})')
            self.points.append((len(order), cur in enabled))
            self.trace.append(c)
            cur = order[c]
            step += 1
            self.sems[cur].release()
            _wait(self.main, f'released {cur} at step {step}, done={self.done}, started={self.started}')
        # release never-started children so that their threads end
        self._abort = True
        for i in range(self.n):
            if not self.done[i]:
                self.sems[i].release()
        t0 = time.time()
        while not all(self.exited):
            time.sleep(0.0002)
            if time.time() - t0 > 60:
                raise RuntimeError('SCHED: participant threads did not exit')
        return self.obs


def preemptions(trace, points) -> int:
    return sum(1 for c, (k, en) in zip(trace, points) if c != 0 and en)


def explore(make_participants, bound, trace_pred=None, check=None, max_exec=2_000_000):
    """Depth-first enumeration of all schedules with <= bound preemptions (bound None = all).

    make_participants() must return fresh participants (fresh closures/objects) for every execution.
    check(obs, errors) -> list of problems for one execution.
    Returns dict(executions, outcomes(set), max_points, problems(list of (trace, problem)), deterministic)
    """
    n_exec = 0
    outcomes = set()
    problems = []
    max_points = 0
    stack = [[]]
    first = True
    deterministic = True
    while stack:
        prefix = stack.pop()
        ex = Execution(make_participants(), prefix, trace_pred)
        obs = ex.run()
        n_exec += 1
        if n_exec > max_exec:
            raise RuntimeError('schedule cap hit')
        key = tuple(tuple(map(repr, o)) for o in obs) + tuple(type(e).__name__ if e else '' for e in ex.errors)
        if first:
            # determinism proof: the same schedule twice must give identical observations and points
            ex2 = Execution(make_participants(), ex.trace, trace_pred)
            obs2 = ex2.run()
            key2 = tuple(tuple(map(repr, o)) for o in obs2) + tuple(type(e).__name__ if e else '' for e in ex2.errors)
            if key2 != key or ex2.points != ex.points:
                deterministic = False
            first = False
        outcomes.add(key)
        max_points = max(max_points, len(ex.points))
        if check is not None:
            for p in check(obs, ex.errors):
                problems.append((list(ex.trace), p))
        for i in range(len(prefix), len(ex.points)):
            k, en = ex.points[i]
            base = preemptions(ex.trace[:i], ex.points[:i])
            for alt in range(1, k):
                cost = base + (1 if en else 0)
                if bound is not None and cost > bound:
                    continue
                stack.append(ex.trace[:i] + [alt])
    return {
        'executions': n_exec,
        'outcomes': outcomes,
        'max_points': max_points,
        'problems': problems,
        'deterministic': deterministic,
    }
