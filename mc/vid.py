"""Adversarial (but legal) `id()` for the furax modules.

CPython only promises that `id(x)` is unique among the objects alive at the same time: once an object has died, any object
created later may receive its id.  Which one does depends on the allocator - a source of nondeterminism a harness cannot
steer through real addresses.  This module owns it instead: every furax module gets a module-level `id` (shadowing the
builtin for code written in that module only - JAX, equinox and the harness keep the real one) that hands out VIRTUAL ids
under the worst legal policy: a new object receives the id of the most recently dead object of the same type, if there is
one.  Code that is correct for every allocator cannot tell the difference; a table keyed by the id of something it does
not keep alive goes wrong at the first opportunity, deterministically.

The unchanged library never calls id(): the counters below stay at zero there (reported in the evidence).
"""
from __future__ import annotations

import builtins
import collections
import itertools
import sys
import weakref

_real_id = builtins.id
_next = itertools.count(1 << 24)          # real addresses are far above: the two ranges never meet
_live: dict[int, tuple] = {}              # real id -> (weakref, virtual id)
_dead: dict[type, list[int]] = collections.defaultdict(list)
stats = collections.Counter()


def virtual_id(obj):
    rid = _real_id(obj)
    stats['calls'] += 1
    ent = _live.get(rid)
    if ent is not None and ent[0]() is obj:
        return ent[1]
    t = type(obj)

    def died(ref, rid=rid, t=t):
        e = _live.get(rid)
        if e is not None and e[0] is ref:
            del _live[rid]
            _dead[t].append(e[1])

    try:
        ref = weakref.ref(obj, died)
    except TypeError:     # ints, tuples, ...: no way to learn when they die; keep the real id
        return rid
    stack = _dead.get(t)
    if stack:
        vid = stack.pop()
        stats['reused'] += 1
    else:
        vid = next(_next)
    _live[rid] = (ref, vid)
    return vid


def install() -> int:
    n = 0
    for name, mod in list(sys.modules.items()):
        if (name == 'furax' or name.startswith('furax.')) and mod is not None and getattr(mod, 'id', None) is not virtual_id:
            mod.id = virtual_id
            n += 1
    return n
