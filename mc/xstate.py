"""XSTATE - explicit-state search of the rewrite graph of operator chains, executed on the REAL rule objects.

A state is a list of live operators (a chain `op0 @ op1 @ ...`).  Transitions (all of them, at every
position, in every order):
    ('IdentityRule', -1)        IdentityRule().apply
    ('HomothetyRule', -1)       HomothetyRule().apply
    ('reduce-operand', i)       ops[i] -> ops[i].reduce()            (what CompositionOperator.reduce does first)
    (<BinaryRule>, i)           rule.check(ops[i], ops[i+1]); rule.apply(...)   for every registered rule
Edge-local invariants: same dense matrix (product of basis probes), adjacent structures match, in/out
structure of the chain unchanged, no exception other than NoReduction.  States are deduplicated by a
canonical key (atom name for alphabet objects - rules inspect object identity -, class + exact parameter
bytes + recursively keyed fields for operators created by rules).
"""
from __future__ import annotations

import dataclasses
import hashlib
import signal

import jax
import numpy as np

from . import probe as P


def h64(key) -> int:
    return int.from_bytes(hashlib.blake2b(repr(key).encode(), digest_size=8).digest(), 'big')


class Env:
    """Per-domain environment: named atoms (shared objects), canonical keys, cached dense matrices."""

    def __init__(self, atoms: dict, exact: bool):
        self.atoms = atoms
        self.exact = exact
        self.name_of = {id(op): n for n, op in atoms.items()}
        self._keep = list(atoms.values())
        self._dense: dict = {}
        self._keycache: dict[int, tuple] = {}

    # ---- canonical keys
    def key(self, x):
        i = id(x)
        if i in self.name_of and self.atoms[self.name_of[i]] is x:
            return ('@', self.name_of[i])
        if i in self._keycache and self._keycache[i][0] is x:
            return self._keycache[i][1]
        k = self._key(x)
        if dataclasses.is_dataclass(x):
            self._keycache[i] = (x, k)
        return k

    def _key(self, x):
        if dataclasses.is_dataclass(x) and not isinstance(x, type):
            return (type(x).__module__ + '.' + type(x).__qualname__,) + tuple(
                (f.name, self.key(getattr(x, f.name, None))) for f in dataclasses.fields(x)
            )
        if isinstance(x, (list, tuple)):
            return (type(x).__name__,) + tuple(self.key(e) for e in x)
        if isinstance(x, dict):
            return ('dict',) + tuple((repr(k), self.key(x[k])) for k in sorted(x, key=repr))
        if isinstance(x, jax.ShapeDtypeStruct):
            return ('sds', tuple(x.shape), str(np.dtype(x.dtype)))
        if isinstance(x, (jax.Array, np.ndarray, np.generic)):
            a = np.asarray(x)
            return ('arr', a.shape, str(a.dtype), a.tobytes().hex())
        if isinstance(x, slice):
            return ('slice', x.start, x.stop, x.step)
        if x is Ellipsis:
            return ('...',)
        if isinstance(x, (str, int, float, bool, type(None))):
            return x
        if callable(x):
            return ('fn', getattr(x, '__qualname__', repr(type(x))))
        return ('obj', type(x).__qualname__, repr(x)[:200])

    def chain_key(self, ops):
        return tuple(self.key(o) for o in ops)

    # ---- denotation
    def dense(self, op) -> np.ndarray:
        k = self.key(op)
        hit = self._dense.get(k)
        if hit is not None:
            return hit
        M = P.probe(op, cache=False).M
        self._dense[k] = M
        return M

    def chain_dense(self, ops, n_in: int) -> np.ndarray:
        M = np.eye(n_in)
        for op in reversed(ops):
            D = self.dense(op)
            if D.shape[1] != M.shape[0]:
                raise P.LibError('chain', ValueError(f'operand shapes do not chain: {D.shape} after {M.shape}'))
            M = D @ M
        return M

    def tol(self) -> float:
        return 0.0 if self.exact else 1e-4


def _rules():
    from furax._base.rules import BINARY_RULE_REGISTRY, HomothetyRule, IdentityRule, NoReduction

    return list(BINARY_RULE_REGISTRY), IdentityRule, HomothetyRule, NoReduction


def successors(env: Env, ops: list):
    """Yields (label, pos, new_ops | LibError). Executes the real rules."""
    rules, IdentityRule, HomothetyRule, NoReduction = _rules()
    k0 = env.chain_key(ops)
    out = []
    try:
        a = IdentityRule().apply(list(ops))
        if len(a) != len(ops):
            out.append(('IdentityRule', -1, a))
    except Exception as e:  # noqa: BLE001
        out.append(('IdentityRule', -1, P.LibError('IdentityRule.apply', e)))
    try:
        b = HomothetyRule().apply(list(ops))
        if env.chain_key(b) != k0:
            out.append(('HomothetyRule', -1, b))
    except Exception as e:  # noqa: BLE001
        out.append(('HomothetyRule', -1, P.LibError('HomothetyRule.apply', e)))
    for i, op in enumerate(ops):
        try:
            with P.quiet():
                r = op.reduce()
        except BaseException as e:  # noqa: BLE001
            if type(e).__name__ == 'CaseTimeout':
                raise
            out.append(('reduce-operand', i, P.LibError(f'{type(op).__name__}.reduce', e)))
            continue
        if r is not op and env.key(r) != env.key(op):
            out.append(('reduce-operand', i, list(ops[:i]) + [r] + list(ops[i + 1 :])))
    for i in range(len(ops) - 1):
        left, right = ops[i], ops[i + 1]
        for rule in rules:
            try:
                rule.check(left, right)
                new = rule.apply(left, right)
            except NoReduction:
                continue
            except BaseException as e:  # noqa: BLE001
                if type(e).__name__ == 'CaseTimeout':
                    raise
                out.append((type(rule).__name__, i, P.LibError(f'{type(rule).__name__} on ({type(left).__name__}, {type(right).__name__})', e)))
                continue
            out.append((type(rule).__name__, i, list(ops[:i]) + list(new) + list(ops[i + 2 :])))
    return out


def struct_chain_ok(ops) -> str | None:
    for i in range(len(ops) - 1):
        if not P.same_struct(ops[i].in_structure(), ops[i + 1].out_structure()):
            return f'operands {i},{i + 1} no longer chain: {ops[i].in_structure()} vs {ops[i + 1].out_structure()}'
    return None


def describe(env: Env, ops) -> list:
    out = []
    for o in ops:
        k = env.key(o)
        out.append(k[1] if k[0] == '@' else type(o).__name__)
    return out


class Explorer:
    """Worker-level explorer with a seen set shared by all roots of the shard."""

    def __init__(self, env: Env, state_cap: int = 20000):
        self.env = env
        self.seen: set[int] = set()
        self.edges: set[tuple[int, int]] = set()
        self.terminals: set[int] = set()
        self.rule_hits: dict[str, int] = {}
        self.rule_ctx: dict[str, set] = {}
        self.ntrans = 0
        self.maxdepth = 0
        self.state_cap = state_cap

    def explore(self, root_ops: list, root_desc, violations: list, witness_fn=None) -> int:
        """BFS from root; returns the number of transitions out of states first seen here."""
        env = self.env
        in_struct = root_ops[-1].in_structure()
        out_struct = root_ops[0].out_structure()
        n_in = P.ssize(in_struct)
        ref = env.chain_dense(root_ops, n_in)
        rk = h64(env.chain_key(root_ops))
        if rk in self.seen:
            return 0
        self.seen.add(rk)
        frontier = [(root_ops, rk, 0, [])]
        fired = 0
        nstates = 0
        while frontier:
            ops, k, depth, path = frontier.pop(0)
            nstates += 1
            if nstates > self.state_cap:
                violations.append({'kind': 'nontermination', 'case': root_desc,
                                   'detail': f'more than {self.state_cap} states reachable from one chain (path {path[:12]} ...)'})
                break
            self.maxdepth = max(self.maxdepth, depth)
            succ = successors(env, ops)
            if not succ:
                self.terminals.add(k)
            for label, pos, nxt in succ:
                self.ntrans += 1
                fired += 1
                step = path + [[label, pos]]
                if isinstance(nxt, P.LibError):
                    violations.append({'kind': 'rule-exception', 'case': root_desc, 'rule': label,
                                       'detail': f'after {path}: {label}@{pos} on {describe(env, ops)} raised {nxt} \n{nxt.tb}'})
                    continue
                self.rule_hits[label] = self.rule_hits.get(label, 0) + 1
                if pos >= 0 and label != 'reduce-operand':
                    ctxk = (describe(env, ops[max(0, pos - 1) : pos]), describe(env, ops[pos + 2 : pos + 3]))
                    self.rule_ctx.setdefault(label, set()).add(repr(ctxk))
                nk = h64(env.chain_key(nxt))
                self.edges.add((k, nk))
                # ---- edge-local invariants
                problem = None
                try:
                    if len(nxt) == 0:
                        if not P.same_struct(in_struct, out_struct):
                            problem = 'chain collapsed to nothing although input and output structures differ'
                        M = np.eye(n_in)
                    else:
                        problem = struct_chain_ok(nxt)
                        if problem is None and not P.same_struct(nxt[-1].in_structure(), in_struct):
                            problem = f'input structure changed to {nxt[-1].in_structure()}'
                        if problem is None and not P.same_struct(nxt[0].out_structure(), out_struct):
                            problem = f'output structure changed to {nxt[0].out_structure()}'
                        M = env.chain_dense(nxt, n_in) if problem is None else None
                    if problem is None and not P.close(M, ref, env.tol() if env.tol() else 1e-6):
                        problem = f'dense matrix changed (max |diff| {P.maxdiff(M, ref):.4g}): before {P.mat_summary(ref, 36)} after {P.mat_summary(M, 36)}'
                except P.LibError as e:
                    problem = f'state after the step cannot be applied: {e}'
                if problem is not None:
                    v = {'kind': 'unsound-step', 'case': root_desc, 'rule': label,
                         'detail': f'after {path}: {label}@{pos} on {describe(env, ops)} -> {describe(env, nxt)}: {problem}'}
                    if witness_fn is not None:
                        v['witness'] = witness_fn(label, pos, ops, nxt)
                    violations.append(v)
                    continue  # edge-local: do not explore beyond an unsound step
                if nk not in self.seen:
                    self.seen.add(nk)
                    frontier.append((nxt, nk, depth + 1, step))
        return fired


# ------------------------------------------------------------------------ driver trace recording
class Recorder:
    """Wraps the `apply` of every rule INSTANCE in the registry (and counts the nesting depth of the n-ary driver)
    to record the firings of the outermost AlgebraicReductionRule run.  Harness-side only; no source hook."""

    def __init__(self):
        self.log: list = []
        self.depth = 0
        self._saved = []

    def __enter__(self):
        from furax._base import rules as R

        rules, *_ = _rules()
        for r in rules:
            orig = r.apply

            def wrapped(left, right, _orig=orig, _r=r):
                out = _orig(left, right)
                if self.depth == 1:
                    self.log.append((type(_r).__name__, left, right, list(out)))
                return out

            setattr(r, 'apply', wrapped)
            self._saved.append(r)
        self._orig_driver = R.AlgebraicReductionRule.apply
        rec = self

        def driver(this, operands):
            rec.depth += 1
            try:
                return rec._orig_driver(this, operands)
            finally:
                rec.depth -= 1

        R.AlgebraicReductionRule.apply = driver
        return self

    def __exit__(self, *a):
        from furax._base import rules as R

        R.AlgebraicReductionRule.apply = self._orig_driver
        for r in self._saved:
            try:
                delattr(r, 'apply')
            except AttributeError:
                pass


class Timeout:
    def __init__(self, seconds: float):
        self.seconds = seconds

    def __enter__(self):
        signal.setitimer(signal.ITIMER_REAL, self.seconds)

    def __exit__(self, *a):
        signal.setitimer(signal.ITIMER_REAL, 0)


def replay_trace(env: Env, start_ops: list, log: list, result_ops: list) -> bool:
    """Replays the recorded firings of the driver as a path from start_ops (after operand reduction, identity and
    homothety steps are re-derived with the real n-ary rules) and checks that it ends in result_ops."""
    rules, IdentityRule, HomothetyRule, NoReduction = _rules()
    from furax._base.core import HomothetyOperator

    target = env.chain_key(result_ops)

    def search(cur: list, idx: int) -> bool:
        if idx == len(log):
            return env.chain_key(cur) == target
        name, left, right, new = log[idx]
        for i in range(len(cur) - 1):
            if (cur[i] is left or env.key(cur[i]) == env.key(left)) and (cur[i + 1] is right or env.key(cur[i + 1]) == env.key(right)):
                nxt = cur[:i] + IdentityRule().apply(list(new)) + cur[i + 2 :]
                if any(isinstance(o, HomothetyOperator) for o in new):
                    nxt = HomothetyRule().apply(nxt)
                if search(nxt, idx + 1):
                    return True
        return False

    cur = IdentityRule().apply(list(start_ops))
    cur = HomothetyRule().apply(cur)
    return search(list(cur), 0)
