"""Coordinator: ./check <PROPERTY> [--tier quick|thorough] [--replay FILE] [--jobs N]

Exit 0: the property held on everything explored (known findings are printed as KNOWN-FINDING lines).
Exit 1: at least one `VIOLATION property=<id> replay=<path>` line was printed.
Exit 2: the machinery itself failed (never silently 'exhaustive').
"""
from __future__ import annotations

import argparse
import hashlib
import importlib
import json
import os
import sys
import time
import traceback

from . import evidence, findings
from .pool import HarnessError, Pools, run_phase

HERE = os.path.dirname(os.path.dirname(os.path.abspath(__file__)))
MAX_REPLAYS = 40
MAX_LINES = 40


def _jsonable(o):
    if isinstance(o, (set, frozenset)):
        return sorted(_jsonable(x) for x in o)
    if isinstance(o, tuple):
        return [_jsonable(x) for x in o]
    if isinstance(o, list):
        return [_jsonable(x) for x in o]
    if isinstance(o, dict):
        return {str(k): _jsonable(v) for k, v in o.items()}
    if isinstance(o, (str, int, float, bool)) or o is None:
        return o
    return repr(o)


def write_replay(prop: str, v: dict) -> str:
    d = os.path.join(HERE, 'replays', prop)
    os.makedirs(d, exist_ok=True)
    body = _jsonable(
        {
            'property': prop,
            'phase': v.get('phase'),
            'target': v.get('target'),
            'x64': 'late' if v.get('x64_mode') == 'late' else bool(v.get('x64')),
            'case': v.get('case'),
            'ctx': v.get('ctx', {}),
            'kind': v.get('kind'),
            'detail': v.get('detail'),
        }
    )
    key = json.dumps([body['phase'], body['x64'], body['case'], body['kind']], sort_keys=True)
    h = hashlib.sha1(key.encode()).hexdigest()[:16]
    path = os.path.join(d, f'{h}.json')
    with open(path, 'w') as f:
        json.dump(body, f, indent=1, sort_keys=True)
    return path


def report(prop: str, violations: list[dict]) -> tuple[int, int]:
    """Prints KNOWN-FINDING / VIOLATION lines; returns (#unknown, #known)."""
    known = findings.load(prop)
    by_sig: dict[str, list[dict]] = {}
    unknown: list[dict] = []
    for v in violations:
        sig = findings.classify(prop, v, known)
        if sig is None:
            unknown.append(v)
        else:
            by_sig.setdefault(sig, []).append(v)
    for sig, vs in sorted(by_sig.items()):
        print(f'KNOWN-FINDING: property={prop} sig={sig} occurrences={len(vs)} {known[sig]}')
    # group unknown violations by kind so that one defect does not produce thousands of files
    unknown.sort(key=lambda v: (str(v.get('kind')), len(json.dumps(_jsonable(v.get('case'))))))
    per_kind: dict[str, int] = {}
    lines = 0
    for v in unknown:
        k = str(v.get('kind'))
        per_kind[k] = per_kind.get(k, 0) + 1
        if per_kind[k] > 6 or lines >= MAX_LINES:
            continue
        path = write_replay(prop, v)
        print(f'VIOLATION property={prop} replay={path}')
        print(f'    kind={k} case={json.dumps(_jsonable(v.get("case")))[:300]}')
        print(f'    detail={str(v.get("detail"))[:600]}')
        lines += 1
    if unknown:
        print(f'[{prop}] {len(unknown)} violation(s) in total, by kind: {per_kind}')
    return len(unknown), sum(len(v) for v in by_sig.values())


TIMEOUT_KINDS = ('did-not-terminate', 'nontermination', 'timeout')


def confirm_timeouts(violations: list[dict], ctx: dict) -> tuple[list[dict], int]:
    """A watchdog that fired is only a violation if it fires again when the case is run alone in a fresh process: a
    genuine non-termination is deterministic, a stalled machine is not.  Returns (kept violations, #not reproduced)."""
    kept, transient = [], 0
    for v in violations:
        if v.get('kind') not in TIMEOUT_KINDS or transient + sum(1 for k in kept if k.get('kind') in TIMEOUT_KINDS) >= 8:
            kept.append(v)
            continue
        pools = Pools(1)
        try:
            c = dict(ctx)
            c.update(v.get('ctx') or {})
            res = run_phase(pools, {'name': v['phase'], 'target': v['target'], 'cases': [v['case']], 'x64': v.get('x64_mode', v.get('x64')), 'chunk': 1}, c, 0,
                            log=lambda *_: None)
        finally:
            pools.close()
        again = [w for w in res.get('violations', []) if w.get('kind') in TIMEOUT_KINDS]
        if again:
            kept.append(v)
        else:
            transient += 1
            print(f'[note] a watchdog fired for case {json.dumps(_jsonable(v.get("case")))[:200]} but the case completes when run alone in a fresh '
                  f'process: not a non-termination (stalled machine), not reported')
            for w in res.get('violations', []):
                w.setdefault('phase', v['phase'])
                w.setdefault('target', v['target'])
                w.setdefault('x64', v.get('x64'))
                w.setdefault('ctx', v.get('ctx') or {})
                kept.append(w)
    return kept, transient


def run_replay(prop: str, path: str, jobs: int) -> int:
    with open(path) as f:
        body = json.load(f)
    pools = Pools(1)
    try:
        phase = {
            'name': body['phase'],
            'target': body['target'],
            'cases': [body['case']],
            'x64': body['x64'],
            'chunk': 1,
        }
        ctx = dict(body.get('ctx') or {})
        ctx['replay'] = True
        res = run_phase(pools, phase, ctx, 0)
    finally:
        pools.close()
    vs = res.get('violations', [])
    for v in vs:
        v.setdefault('phase', body['phase'])
        v.setdefault('target', body['target'])
        v.setdefault('x64', body['x64'])
    print(f'[replay] case={json.dumps(body["case"])[:500]}')
    print(f'[replay] recorded kind={body.get("kind")}')
    if not vs:
        print('[replay] the case passes on the current tree')
        return 0
    for v in vs:
        print(f'[replay] kind={v.get("kind")} detail={str(v.get("detail"))[:2000]}')
    n_unknown, _ = report(prop, vs)
    return 1 if n_unknown else 0


def main(argv=None) -> int:
    ap = argparse.ArgumentParser()
    ap.add_argument('property')
    ap.add_argument('--tier', default=os.environ.get('VERIF_TIER') or 'quick', choices=['quick', 'thorough'])
    ap.add_argument('--replay')
    ap.add_argument('--jobs', type=int, default=int(os.environ.get('VERIF_JOBS') or min(16, os.cpu_count() or 4)))
    ap.add_argument('--no-evidence', action='store_true')
    ap.add_argument('--dump', help='write all violations as JSON (triage aid)')
    args = ap.parse_args(argv)
    prop = args.property.upper()
    seed = int(os.environ.get('VERIF_SEED') or 0)
    try:
        mod = importlib.import_module(f'checks.{prop.lower()}')
    except ModuleNotFoundError:
        print(f'no check for {prop}', file=sys.stderr)
        return 2
    if args.replay:
        try:
            return run_replay(prop, args.replay, args.jobs)
        except HarnessError as e:
            print(f'HARNESS-ERROR {e}', file=sys.stderr)
            return 2

    t0 = time.time()
    pools = Pools(args.jobs)
    results: dict[str, dict] = {}
    try:
        phases = mod.plan(args.tier, seed)
        ctx = {'tier': args.tier, 'seed': seed}
        for ph in phases:
            ph_ctx = dict(ctx)
            ph_ctx.update(ph.get('ctx') or {})
            res = run_phase(pools, ph, ph_ctx, seed)
            for v in res.get('violations', []):
                v.setdefault('phase', ph['name'])
                v.setdefault('target', ph['target'])
                v.setdefault('x64', bool(ph.get('x64')))
                v.setdefault('x64_mode', ph.get('x64', False))
                v.setdefault('ctx', ph.get('ctx') or {})
            results[ph['name']] = res
        fin = mod.finalize(results, args.tier, seed)
    except HarnessError as e:
        print(f'HARNESS-ERROR {e}', file=sys.stderr)
        pools.close()
        return 2
    except Exception:
        print(f'HARNESS-ERROR {traceback.format_exc()}', file=sys.stderr)
        pools.close()
        return 2
    pools.close()

    violations = []
    for res in results.values():
        violations += res.get('violations', [])
    violations += fin.get('violations', [])
    try:
        violations, transient = confirm_timeouts(violations, ctx)
    except HarnessError as e:
        print(f'HARNESS-ERROR {e}', file=sys.stderr)
        return 2
    if args.dump:
        with open(args.dump, 'w') as f:
            json.dump(_jsonable(violations), f)
    n_unknown, n_known = report(prop, violations)
    wall = time.time() - t0
    cov = fin['coverage']
    # mc/vid.py: calls of id() made by the furax sources (answered adversarially); zero on a tree that keeps no id-keyed tables
    cov['watchdog_timeouts_not_reproduced'] = transient
    cov['library_id_calls_intercepted'] = sum(int(r.get('vid_calls', 0)) for r in results.values())
    cov['library_ids_reused_adversarially'] = sum(int(r.get('vid_reused', 0)) for r in results.values())
    if not args.no_evidence:
        evidence.write(
            prop,
            tier=args.tier,
            seed=seed,
            level=mod.LEVEL,
            coverage=cov,
            assumptions=fin.get('assumptions', []),
            wall_s=wall,
            violations=n_unknown,
            known_findings=n_known,
        )
    brief = {k: v for k, v in cov.items() if isinstance(v, (int, float, bool))}
    print(f'[{prop}] tier={args.tier} seed={seed} wall={wall:.1f}s violations={n_unknown} known={n_known} {brief}')
    return 1 if n_unknown else 0


if __name__ == '__main__':
    sys.exit(main())
